//! C17 — the crate builds and keeps its contract with parse_unknown_fields disabled
//! (build + cross-build differential enumeration over the C04/C05 stream spaces).
use super::stream::StreamGen;
use crate::engine::*;
use crate::util::*;
use netflow_parser::variable_versions::data_number::FieldDataType;
use netflow_parser::variable_versions::{ipfix, v9};
use netflow_parser::{NetflowPacket, NetflowParser};
use rayon::prelude::*;
use serde_json::json;
use std::io::Write;
use std::time::Instant;

pub fn generators(tier: &str) -> Vec<StreamGen> {
    let mut v = super::c04::streams_with(tier, if tier == "thorough" { 4 } else { 3 });
    v.extend(super::c05::streams_with(tier, if tier == "thorough" { 4 } else { 3 }));
    // an id first defined WITH a field the library does not know (in a packet of its own, with or without data), then
    // re-announced known-only by a later packet that also carries data - and the reverse order: whatever a build
    // remembers about an id must follow its latest definition
    for ipfix in [false, true] {
        let mk = move |i: u64| -> Option<Vec<Vec<u8>>> {
            use crate::wire::*;
            let d = digits(i, &[2, 3, 2, 3, 2]);
            let unk = fs(600, [1u16, 2, 4][d[1] as usize]);
            let k1 = if ipfix { fs(1, 4) } else { fs(1, 4) };
            let k2 = fs(7, 2);
            let with_unknown: Vec<FieldSpec> = if d[0] == 0 { vec![unk, k1] } else { vec![k1, unk] };
            let known_only: Vec<FieldSpec> = vec![k1, k2];
            let (first, second) = if d[4] == 0 { (with_unknown, known_only) } else { (known_only, with_unknown) };
            let body = |f: &[FieldSpec], salt: usize| -> Vec<u8> { (0..2 * f.iter().map(|x| x.len as usize).sum::<usize>()).map(|j| fill(salt, j)).collect() };
            let pkt = |sets: Vec<(bool, Vec<FieldSpec>, usize)>| -> Vec<u8> {
                if ipfix {
                    ipfix_message(&IpfixMsg::new(sets.into_iter().map(|(is_t, f, salt)| if is_t { IpfixSet::Tpl(vec![IpfixTpl { id: 256, fields: f }], 0) } else { IpfixSet::Data(256, body(&f, salt)) }).collect()))
                } else {
                    v9_packet(&V9Pkt::new(sets.into_iter().map(|(is_t, f, salt)| if is_t { V9Set::Tpl(vec![V9Tpl { id: 256, fields: f }], 0) } else { V9Set::Data(256, body(&f, salt)) }).collect()))
                }
            };
            let p1 = if d[2] == 0 { pkt(vec![(true, first.clone(), 0)]) } else { pkt(vec![(true, first.clone(), 0), (false, first.clone(), 5)]) };
            let calls = match d[3] {
                0 => vec![p1, pkt(vec![(true, second.clone(), 0), (false, second.clone(), 9)])],
                1 => vec![p1, pkt(vec![(true, second.clone(), 0)]), pkt(vec![(false, second.clone(), 9)])],
                _ => vec![[p1, pkt(vec![(true, second.clone(), 0)]), pkt(vec![(false, second.clone(), 9)])].concat()],
            };
            Some(calls)
        };
        v.push(super::stream::stream_gen(if ipfix { "ipfix-id-redefined-between-unknown-and-known-only-across-packets" } else { "v9-id-redefined-between-unknown-and-known-only-across-packets" }, 2 * 3 * 2 * 3 * 2, mk));
    }
    // options templates whose SCOPE or option part names a field the library does not know, data in the same packet or
    // in a later call: an options data record with such a field is not decoded data either
    for ipfix in [false, true] {
        let mk = move |i: u64| -> Option<Vec<Vec<u8>>> {
            use crate::wire::*;
            let d = digits(i, &[2, 4, 3, 3]);
            let unk = fs(600, [1u16, 2, 4][d[2] as usize]);
            let (scope_n, pos) = (1 + d[0] as usize, d[1] as usize);
            // three fields, the unknown one at position `pos` (3 = none: the known-only control)
            let mut f: Vec<FieldSpec> = if ipfix { vec![fs(10, 4), fs(34, 4), fs(36, 2)] } else { vec![fs(1, 4), fs(34, 4), fs(36, 2)] };
            if pos < 3 {
                if !ipfix && pos < scope_n {
                    f[pos] = fs(9, unk.len); // a V9 scope type the scope table does not list
                } else {
                    f[pos] = unk;
                }
            }
            let body: Vec<u8> = (0..2 * f.iter().map(|x| x.len as usize).sum::<usize>()).map(|j| fill(7, j)).collect();
            let (t, dset) = if ipfix {
                (ipfix_message(&IpfixMsg::new(vec![IpfixSet::OptTpl(vec![IpfixOptTpl { id: 300, scope_count: scope_n as u16, fields: f.clone() }], 0)])), ipfix_message(&IpfixMsg::new(vec![IpfixSet::Data(300, body.clone())])))
            } else {
                (v9_packet(&V9Pkt::new(vec![V9Set::OptTpl(vec![V9OptTpl { id: 300, scope: f[..scope_n].to_vec(), opts: f[scope_n..].to_vec() }], 0)])), v9_packet(&V9Pkt::new(vec![V9Set::Data(300, body.clone())])))
            };
            let both = if ipfix {
                ipfix_message(&IpfixMsg::new(vec![IpfixSet::OptTpl(vec![IpfixOptTpl { id: 300, scope_count: scope_n as u16, fields: f.clone() }], 0), IpfixSet::Data(300, body.clone())]))
            } else {
                v9_packet(&V9Pkt::new(vec![V9Set::OptTpl(vec![V9OptTpl { id: 300, scope: f[..scope_n].to_vec(), opts: f[scope_n..].to_vec() }], 0), V9Set::Data(300, body.clone())]))
            };
            Some(match d[3] {
                0 => vec![both],
                1 => vec![t, dset],
                _ => vec![[t, dset].concat()],
            })
        };
        v.push(super::stream::stream_gen(if ipfix { "ipfix-options-template-with-unknown-field-in-scope-or-options" } else { "v9-options-template-with-unknown-field-in-scope-or-options" }, 2 * 4 * 3 * 3, mk));
    }
    v
}

/// (digest of everything observable, flags) ; flags bit0 = some template of the stream has a field the library types
/// Unknown (table lookup, identical in both builds) ; bit1 = a decoded data record contains such a field ;
/// bit2 = the stream was skipped by its generator
pub fn observe(calls: &[Vec<u8>]) -> (u64, u8) {
    let (d, f, _) = observe3(calls);
    (d, f)
}

/// is the packet, as the REFERENCE decodes it from the bytes (identically in both builds), free of fields the library
/// types Unknown - in its template records and in its data records?
fn ref_known_only(pk: &crate::cform::CPkt, governing: &mut std::collections::HashMap<(u16, u16), bool>) -> bool {
    use crate::cform::*;
    use crate::refmodel::{class_ipfix, class_v9, Class};
    match pk {
        CPkt::Var(r) => {
            let v9 = r.version == 9;
            let unk = |x: &CTplField| {
                if v9 {
                    class_v9(x.ty) == Class::Unknown
                } else {
                    x.pen.is_none() && class_ipfix(&crate::wire::FieldSpec { ty: x.ty, len: x.len, pen: x.pen }) == Class::Unknown
                }
            };
            let mut known_only = true;
            // sets in order: `governing` says whether the latest definition of (version, id) holds an unknown field
            for s in &r.sets {
                match &s.body {
                    CBody::Tpl(ts, _) | CBody::OptTpl(ts, _) => {
                        for t in ts {
                            let (id, u) = match t {
                                CTpl::Plain(id, _, f) | CTpl::IpfixOpt(id, _, _, f) => (*id, f.iter().any(unk)),
                                // V9 scope fields are typed by the scope table, not by the field table
                                CTpl::V9Opt(id, _, _, _, b) => (*id, b.iter().any(unk)),
                            };
                            governing.insert((r.version, id), u);
                            known_only &= !u;
                        }
                    }
                    CBody::Data(..) | CBody::OptData(..) => {
                        known_only &= !governing.get(&(r.version, s.id)).cloned().unwrap_or(false);
                    }
                }
            }
            known_only
        }
        CPkt::Fixed(_) => true,
        _ => false,
    }
}

/// third component: digest over the packets of the stream that contain only known fields (classified by the reference
/// decode of the bytes, so both builds classify alike); 0 when the reference cannot follow the stream
pub fn observe3(calls: &[Vec<u8>]) -> (u64, u8, u64) {
    let mut p = NetflowParser::default();
    let mut acc: Vec<u64> = vec![];
    let mut acc2: Vec<u64> = vec![];
    let mut rc = crate::refmodel::RefCache::default();
    let mut classified = true;
    let mut governing: std::collections::HashMap<(u16, u16), bool> = Default::default();
    let mut flags = 0u8;
    // does the latest definition of (protocol, id) seen in the results contain a field the library types Unknown?
    let mut latest_unknown: std::collections::HashMap<(u8, u16), bool> = Default::default();
    for c in calls {
        let res = p.parse_bytes(c);
        let exp = match crate::refmodel::ref_buffer(c, &mut rc) {
            Ok(e) => e,
            Err(_) => {
                classified = false;
                vec![]
            }
        };
        // classify every packet the reference sees, in order (the table of governing definitions must follow them all)
        let classes: Vec<bool> = exp.iter().map(|pk| ref_known_only(pk, &mut governing)).collect();
        for (k, e) in res.iter().enumerate() {
            acc.push(h64(&format!("{:?}", e)));
            if classes.get(k).cloned().unwrap_or(false) {
                acc2.push(h64(&(k, format!("{:?}", e))));
                acc2.push(h64(&format!("{:?}", e.as_netflow_common().map_err(|_| "error"))));
                match e {
                    NetflowPacket::V9(x) => acc2.push(h64(&format!("{:?}", x.to_be_bytes().map_err(|e| e.to_string())))),
                    NetflowPacket::IPFix(x) => acc2.push(h64(&format!("{:?}", x.to_be_bytes().map_err(|e| e.to_string())))),
                    _ => {}
                }
            }
            match e {
                NetflowPacket::V9(x) => {
                    acc.push(h64(&format!("{:?}", x.to_be_bytes().map_err(|e| e.to_string()))));
                    for s in &x.flowsets {
                        match &s.body {
                            v9::FlowSetBody::Template(t) => {
                                for t in &t.templates {
                                    let u = t.fields.iter().any(|f| FieldDataType::from(f.field_type) == FieldDataType::Unknown);
                                    latest_unknown.insert((9, t.template_id), u);
                                    if u {
                                        flags |= 1;
                                    }
                                }
                            }
                            v9::FlowSetBody::OptionsTemplate(t) => {
                                for t in &t.templates {
                                    latest_unknown.insert((9, t.template_id), false);
                                }
                            }
                            v9::FlowSetBody::Data(d) => {
                                if d.fields.iter().any(|r| r.values().any(|(ft, _)| FieldDataType::from(*ft) == FieldDataType::Unknown)) {
                                    flags |= 2;
                                }
                                // records reported for an id whose latest definition holds an unknown field
                                if !d.fields.is_empty() && latest_unknown.get(&(9, s.header.flowset_id)).cloned().unwrap_or(false) {
                                    flags |= 2;
                                }
                            }
                            _ => {}
                        }
                    }
                }
                NetflowPacket::IPFix(x) => {
                    acc.push(h64(&format!("{:?}", x.to_be_bytes().map_err(|e| e.to_string()))));
                    for s in &x.flowsets {
                        let unk = |f: &ipfix::TemplateField| f.enterprise_number.is_none() && FieldDataType::from(f.field_type) == FieldDataType::Unknown;
                        match &s.body {
                            ipfix::FlowSetBody::Template(t) => {
                                let u = t.fields.iter().any(unk);
                                latest_unknown.insert((10, t.template_id), u);
                                if u {
                                    flags |= 1;
                                }
                            }
                            ipfix::FlowSetBody::OptionsTemplate(t) => {
                                let u = t.fields.iter().any(unk);
                                latest_unknown.insert((10, t.template_id), u);
                                if u {
                                    flags |= 1;
                                }
                            }
                            ipfix::FlowSetBody::Data(d) => {
                                if !d.fields.is_empty() && latest_unknown.get(&(10, s.header.header_id)).cloned().unwrap_or(false) {
                                    flags |= 2;
                                }
                                if d.fields.iter().any(|r| r.values().any(|(ft, _)| FieldDataType::from(*ft) == FieldDataType::Unknown && !matches!(ft, netflow_parser::variable_versions::ipfix_lookup::IPFixField::Enterprise))) {
                                    flags |= 2;
                                }
                            }
                            ipfix::FlowSetBody::OptionsData(d) => {
                                if !d.fields.is_empty() && latest_unknown.get(&(10, s.header.header_id)).cloned().unwrap_or(false) {
                                    flags |= 2;
                                }
                                if d.fields.iter().any(|r| r.values().any(|(ft, _)| FieldDataType::from(*ft) == FieldDataType::Unknown && !matches!(ft, netflow_parser::variable_versions::ipfix_lookup::IPFixField::Enterprise))) {
                                    flags |= 2;
                                }
                            }
                        }
                    }
                }
                _ => {}
            }
            acc.push(h64(&format!("{:?}", e.as_netflow_common().map_err(|_| "error"))));
        }
    }
    (h64(&acc), flags, if classified && !acc2.is_empty() { h64(&acc2) | 1 } else { 0 })
}

/// `nfmc dump <tier> <outfile>`: one record (u64 digest, u8 flags) per index of every generator, in order
pub fn dump(tier: &str, out: &str) -> i32 {
    let mut f = std::io::BufWriter::new(std::fs::File::create(out).expect("dump file"));
    for g in generators(tier) {
        let recs: Vec<(u64, u8, u64)> = (0..g.size).into_par_iter().map(|i| match (g.gen)(i) {
            Some(c) => observe3(&c),
            None => (0, 4, 0),
        }).collect();
        for (d, fl, d2) in recs {
            f.write_all(&d.to_le_bytes()).unwrap();
            f.write_all(&[fl]).unwrap();
            f.write_all(&d2.to_le_bytes()).unwrap();
        }
    }
    f.flush().unwrap();
    0
}

fn read_dump(path: &str) -> Vec<(u64, u8, u64)> {
    let b = std::fs::read(path).unwrap_or_default();
    b.chunks(17).filter(|c| c.len() == 17).map(|c| (u64::from_le_bytes(c[..8].try_into().unwrap()), c[8], u64::from_le_bytes(c[9..17].try_into().unwrap()))).collect()
}

pub fn run(tier: &str) -> i32 {
    let t0 = Instant::now();
    let known = Known::load();
    let mcdir = format!("{}/mc", verif());
    let dir = format!("{}/replays/C17", verif());
    let _ = std::fs::create_dir_all(&dir);
    // step 0: the library must compile with the feature off (through the harness' feature switch)
    let log = format!("{}/{}_build_no_default_features.log", dir, tier);
    let st = std::process::Command::new("cargo")
        .args(["build", "--release", "--offline", "--no-default-features", "--target-dir", &format!("{}/target-nf", mcdir)])
        .current_dir(&mcdir)
        .env("CARGO_NET_OFFLINE", "true")
        .output()
        .expect("spawn cargo");
    let build_ok = st.status.success();
    let mut spaces: Vec<Box<dyn Space>> = vec![];
    let mut results = vec![];
    let gens = generators(tier);
    if !build_ok {
        let text = String::from_utf8_lossy(&st.stderr).to_string();
        let _ = std::fs::write(&log, &text);
        let first_err: String = text.lines().filter(|l| l.starts_with("error")).take(3).collect::<Vec<_>>().join(" | ");
        let lib_failed = text.contains("could not compile `netflow_parser`");
        if !lib_failed {
            eprintln!("MACHINERY: the feature-off build failed outside netflow_parser: {}", first_err);
            return 2;
        }
        let mut issues = std::collections::BTreeMap::new();
        issues.insert("build/no-default-features-does-not-compile".to_string(), (1u64, 0u64, format!("cargo build --no-default-features fails: {} (full log: {})", first_err, log)));
        let l2 = log.clone();
        spaces.push(space("cargo build --no-default-features", 1, |_| Eval { key: 1, transitions: 0, issues: vec![issue("build/no-default-features-does-not-compile", "see build log")], tags: vec![] }, move |_| json!({"build_log": l2, "command": "cd /verif/mc && cargo build --release --offline --no-default-features"})));
        results.push(SpaceResult { name: "cargo build --no-default-features".into(), size: 1, evaluations: 1, transitions: 0, keys: [1u64, 2].into_iter().collect(), tags: Default::default(), issues, wall_s: t0.elapsed().as_secs_f64() });
    } else {
        // steps 1 and 2: both builds walk the same spaces; digests must agree on known-only streams, and the
        // feature-off build must not report records containing a field the library does not know
        let on = format!("{}/target/c17_on.dump", mcdir);
        let off = format!("{}/target/c17_off.dump", mcdir);
        let r1 = std::process::Command::new(std::env::current_exe().unwrap()).args(["dump", tier, &on]).status().map(|s| s.success()).unwrap_or(false);
        let r2 = std::process::Command::new(format!("{}/target-nf/release/nfmc", mcdir)).args(["dump", tier, &off]).status().map(|s| s.success()).unwrap_or(false);
        if !r1 || !r2 {
            eprintln!("MACHINERY: dump sub-command failed (feature-on ok={}, feature-off ok={})", r1, r2);
            return 2;
        }
        let (don, doff) = (read_dump(&on), read_dump(&off));
        let total: u64 = gens.iter().map(|g| g.size).sum();
        if don.len() as u64 != total || doff.len() as u64 != total {
            eprintln!("MACHINERY: dump sizes {} / {} differ from the enumerated space {}", don.len(), doff.len(), total);
            return 2;
        }
        let mut base = 0usize;
        for g in &gens {
            let n = g.size as usize;
            let mut issues: std::collections::BTreeMap<String, (u64, u64, String)> = Default::default();
            let mut keys = std::collections::HashSet::new();
            let mut tags: std::collections::BTreeMap<&'static str, u64> = Default::default();
            for i in 0..n {
                let (d1, f1, k1) = don[base + i];
                let (d2, f2, k2) = doff[base + i];
                if f1 & 4 != 0 {
                    continue;
                }
                let mut add = |sig: &str, detail: String| {
                    let e = issues.entry(sig.to_string()).or_insert((0, u64::MAX, String::new()));
                    e.0 += 1;
                    if (i as u64) < e.1 {
                        e.1 = i as u64;
                        e.2 = detail;
                    }
                };
                if f1 & 1 == 0 {
                    *tags.entry("known-only-stream-compared").or_insert(0) += 1;
                    keys.insert(d1);
                    if d1 != d2 {
                        add("known-only-stream-differs-between-builds", "decode / re-export / common view of a stream whose templates contain only known fields differ between the default build and the --no-default-features build".into());
                    }
                } else {
                    *tags.entry("stream-with-unknown-field").or_insert(0) += 1;
                    keys.insert(d2 ^ 0x5555);
                    if f2 & 2 != 0 {
                        add("feature-off-reports-record-with-unknown-field", "the --no-default-features build reports a decoded data record that contains a field the library does not know".into());
                    }
                    // the PACKETS of such a stream that contain only known fields decode, re-export and convert alike
                    if k1 != 0 && k2 != 0 {
                        *tags.entry("known-only-packets-of-a-stream-with-unknown-fields-compared").or_insert(0) += 1;
                        if k1 != k2 {
                            add("known-only-packet-differs-between-builds", "a packet that contains only fields known to the library (in a stream that elsewhere uses a field it does not know) decodes / re-exports / converts differently in the --no-default-features build".into());
                        }
                    }
                    if f1 & 2 != 0 {
                        // vacuity guard: the default build does decode such records, so the clause is exercised
                        *tags.entry("unknown-field-record-decoded-by-default-build").or_insert(0) += 1;
                    }
                }
            }
            let gg = g.clone();
            let gname = g.name.clone();
            let (on2, off2) = (on.clone(), off.clone());
            let b2 = base;
            spaces.push(space(
                &g.name,
                g.size,
                move |i| {
                    // re-evaluation for confirmation: compare the two recorded dumps again at this index
                    let (a, b) = (read_dump(&on2), read_dump(&off2));
                    let ((d1, f1, k1), (d2, f2, k2)) = (a[b2 + i as usize], b[b2 + i as usize]);
                    let mut is = vec![];
                    if f1 & 1 == 0 && d1 != d2 {
                        is.push(issue("known-only-stream-differs-between-builds", ""));
                    }
                    if f1 & 1 != 0 && k1 != 0 && k2 != 0 && k1 != k2 {
                        is.push(issue("known-only-packet-differs-between-builds", ""));
                    }
                    if f1 & 1 != 0 && f2 & 2 != 0 {
                        is.push(issue("feature-off-reports-record-with-unknown-field", ""));
                    }
                    Eval { key: d1, transitions: 0, issues: is, tags: vec![] }
                },
                move |i| (gg.gen)(i).map(|c| super::stream::desc_calls(&c)).unwrap_or(json!("skipped")),
            ));
            results.push(SpaceResult { name: gname, size: g.size, evaluations: g.size * 2, transitions: g.size * 2, keys, tags, issues, wall_s: 0.0 });
            base += n;
        }
    }
    let rep = Report {
        prop: "C17".into(),
        tier: tier.into(),
        level: "model_checking",
        rule: "step 0: cargo build --no-default-features of the library (through the harness' feature switch) must succeed; steps 1-2: the default build and the feature-off build of the same harness each walk every index of C04's and C05's stream spaces and record a digest of (decoded results, re-export, common view) per index; streams whose templates contain only known fields must have identical digests, streams with a field the library types Unknown must yield no decoded record containing it in the feature-off build. Distinct by digest".into(),
        bounds: json!({"spaces": "all generators of C04 and C05 at this tier", "builds": ["default features", "--no-default-features"]}),
        assumptions: vec!["enterprise-specific IPFIX fields are decoded as opaque bytes by an explicit branch in both builds and are not counted as unknown".into()],
        trusted_base: vec!["c17::observe".into()],
        required_tags: if build_ok { vec!["known-only-stream-compared", "stream-with-unknown-field", "unknown-field-record-decoded-by-default-build", "known-only-packets-of-a-stream-with-unknown-fields-compared"] } else { vec![] },
        extra: [("feature_off_build_ok".to_string(), json!(build_ok))].into_iter().collect(),
    };
    finish(rep, &spaces, results, &known, t0)
}
