//! E-SWEEP: subprocess-isolated evaluation of index ranges.  A worker evaluates a contiguous range on a 2 MiB
//! thread under catch_unwind, publishing the index in flight through a shared mapping; the parent attributes an
//! abnormal exit (signal, abort, memory budget) or a missed heartbeat (hang) to exactly that index, records
//! it, and restarts after it.  Nothing is sampled: every index of every family is evaluated exactly once
//! (indices evaluated before a crash but not yet reported are re-queued).
use crate::alloc;
use crate::families::{Case, Family};
use serde_json::{json, Value};
use std::collections::{HashSet, VecDeque};
use std::io::Write;
use std::panic::{catch_unwind, AssertUnwindSafe};
use std::process::{Child, Command, Stdio};
use std::sync::Arc;
use std::time::{Duration, Instant};

pub const STACK: usize = 2 << 20;
const BLOCK: u64 = 2048;

/// what one evaluation reports back
#[derive(Default, Clone, Debug)]
pub struct Obs {
    pub key: u64,
    /// caught panic message, if any
    pub panic: Option<String>,
    /// property-specific measurements (C15) / issue strings
    pub meas: Vec<u64>,
    pub issues: Vec<(String, String)>,
}

pub type Exercise = dyn Fn(&Case, u64) -> Obs + Sync + Send;

// ------------------------------------------------------------------------------------------------ worker side

struct Progress(*mut u64);
unsafe impl Send for Progress {}
impl Progress {
    fn open(path: &str) -> Progress {
        use std::os::unix::io::AsRawFd;
        let f = std::fs::OpenOptions::new().read(true).write(true).create(true).open(path).expect("progress file");
        f.set_len(16).unwrap();
        let p = unsafe { libc::mmap(std::ptr::null_mut(), 16, libc::PROT_READ | libc::PROT_WRITE, libc::MAP_SHARED, f.as_raw_fd(), 0) };
        assert!(p != libc::MAP_FAILED);
        Progress(p as *mut u64)
    }
    fn set(&self, idx: u64) {
        unsafe {
            std::ptr::write_volatile(self.0, idx);
            std::ptr::write_volatile(self.0.add(1), 1);
        }
    }
}

/// worker main: evaluate [start, end) of `fam`, append result blocks to `out`
pub fn worker(fam: Arc<dyn Family>, ex: Arc<Exercise>, start: u64, end: u64, progress: &str, out: &str, budget: u64) -> i32 {
    let prog = Progress::open(progress);
    let mut outf = std::fs::OpenOptions::new().create(true).append(true).open(out).expect("out file");
    alloc::set_budget(budget);
    let h = std::thread::Builder::new()
        .stack_size(STACK)
        .spawn(move || {
            let mut from = start;
            let mut keys: Vec<u64> = vec![];
            let mut panics: Vec<Value> = vec![];
            let mut meas: Vec<Value> = vec![];
            let mut issues: Vec<Value> = vec![];
            for idx in start..end {
                let case = fam.case(idx);
                prog.set(idx);
                let o = match catch_unwind(AssertUnwindSafe(|| ex(&case, idx))) {
                    Ok(o) => o,
                    Err(e) => {
                        let msg = e.downcast_ref::<String>().cloned().or_else(|| e.downcast_ref::<&str>().map(|s| s.to_string())).unwrap_or_else(|| "panic".into());
                        Obs { key: 0, panic: Some(msg), meas: vec![], issues: vec![] }
                    }
                };
                if o.key != 0 {
                    keys.push(o.key);
                }
                if let Some(m) = o.panic {
                    panics.push(json!([idx, m]));
                }
                if !o.meas.is_empty() {
                    meas.push(json!([idx, o.meas]));
                }
                for (s, d) in o.issues {
                    issues.push(json!([idx, s, d]));
                }
                if idx + 1 - from >= BLOCK || idx + 1 == end {
                    let line = json!({"from": from, "to": idx + 1, "keys": keys, "panics": panics, "meas": meas, "issues": issues});
                    writeln!(outf, "{}", line).unwrap();
                    outf.flush().unwrap();
                    from = idx + 1;
                    keys.clear();
                    panics.clear();
                    meas.clear();
                    issues.clear();
                }
            }
        })
        .unwrap();
    match h.join() {
        Ok(_) => 0,
        Err(_) => 3,
    }
}

// ------------------------------------------------------------------------------------------------ parent side

#[derive(Clone, Debug)]
pub struct Fatal {
    pub idx: u64,
    /// "signal 11", "signal 6 (abort / stack overflow)", "hang > 60 s", "exit 101"
    pub how: String,
}

#[derive(Default)]
pub struct SweepResult {
    pub name: String,
    pub size: u64,
    pub evaluated: u64,
    pub keys: HashSet<u64>,
    pub panics: Vec<(u64, String)>,
    pub fatals: Vec<Fatal>,
    pub membudget: Vec<u64>,
    pub meas: Vec<(u64, Vec<u64>)>,
    pub issues: Vec<(u64, String, String)>,
    pub wall_s: f64,
}

struct Job {
    start: u64,
    end: u64,
}
struct Running {
    child: Child,
    job: Job,
    prog: String,
    out: String,
    last_idx: u64,
    last_change: Instant,
}

fn read_progress(path: &str) -> Option<u64> {
    let b = std::fs::read(path).ok()?;
    if b.len() < 16 || u64::from_ne_bytes(b[8..16].try_into().unwrap()) == 0 {
        return None;
    }
    Some(u64::from_ne_bytes(b[0..8].try_into().unwrap()))
}

pub struct SweepCfg {
    pub binary: String,
    /// arguments that make the worker rebuild the same family list: [mode, tier]
    pub mode: String,
    pub tier: String,
    pub family_index: usize,
    pub workers: usize,
    pub horizon: Duration,
    pub budget: u64,
    pub chunk: u64,
}

pub fn run_range(cfg: &SweepCfg, name: &str, lo: u64, size: u64) -> SweepResult {
    let t0 = Instant::now();
    let dir = format!("{}/mc/target/sweep", crate::engine::verif());
    let _ = std::fs::create_dir_all(&dir);
    let mut res = SweepResult { name: name.to_string(), size: size - lo, ..Default::default() };
    let mut queue: VecDeque<Job> = VecDeque::new();
    let chunk = cfg.chunk.max(1);
    let mut s = lo;
    while s < size {
        let e = (s + chunk).min(size);
        queue.push_back(Job { start: s, end: e });
        s = e;
    }
    let mut running: Vec<Running> = vec![];
    let mut serial = 0u64;
    let pid = std::process::id();
    loop {
        while running.len() < cfg.workers {
            let job = match queue.pop_front() {
                Some(j) => j,
                None => break,
            };
            serial += 1;
            let prog = format!("{}/{}_{}_{}.prog", dir, pid, cfg.family_index, serial);
            let out = format!("{}/{}_{}_{}.out", dir, pid, cfg.family_index, serial);
            let _ = std::fs::remove_file(&prog);
            let _ = std::fs::remove_file(&out);
            let child = Command::new(&cfg.binary)
                .args(["worker", &cfg.mode, &cfg.tier, &cfg.family_index.to_string(), &job.start.to_string(), &job.end.to_string(), &prog, &out, &cfg.budget.to_string()])
                .stdin(Stdio::null())
                .stdout(Stdio::null())
                .stderr(Stdio::null())
                .spawn()
                .unwrap_or_else(|e| {
                    eprintln!("MACHINERY: cannot spawn worker {}: {}", cfg.binary, e);
                    std::process::exit(2)
                });
            running.push(Running { child, job, prog, out, last_idx: u64::MAX, last_change: Instant::now() });
        }
        if running.is_empty() {
            break;
        }
        std::thread::sleep(Duration::from_millis(20));
        let mut i = 0;
        while i < running.len() {
            let r = &mut running[i];
            let mut done: Option<Option<String>> = None; // Some(None) = clean ; Some(Some(how)) = abnormal
            match r.child.try_wait() {
                Ok(Some(st)) => {
                    use std::os::unix::process::ExitStatusExt;
                    if st.success() {
                        done = Some(None);
                    } else if let Some(sig) = st.signal() {
                        done = Some(Some(format!("signal {}{}", sig, if sig == 6 { " (abort: stack overflow or allocation failure)" } else if sig == 11 { " (segmentation fault / stack overflow)" } else { "" })));
                    } else {
                        done = Some(Some(format!("exit {}", st.code().unwrap_or(-1))));
                    }
                }
                Ok(None) => {
                    let cur = read_progress(&r.prog).unwrap_or(u64::MAX);
                    if cur != r.last_idx {
                        r.last_idx = cur;
                        r.last_change = Instant::now();
                    } else if r.last_change.elapsed() > cfg.horizon {
                        let _ = r.child.kill();
                        let _ = r.child.wait();
                        done = Some(Some(format!("hang: no progress for {} s", cfg.horizon.as_secs())));
                    }
                }
                Err(_) => done = Some(Some("wait failed".into())),
            }
            if let Some(how) = done {
                let r = running.swap_remove(i);
                // collect complete blocks
                let mut covered = r.job.start;
                if let Ok(text) = std::fs::read_to_string(&r.out) {
                    for line in text.lines() {
                        let v: Value = match serde_json::from_str(line) {
                            Ok(v) => v,
                            Err(_) => break, // torn last line
                        };
                        let from = v["from"].as_u64().unwrap();
                        let to = v["to"].as_u64().unwrap();
                        if from != covered {
                            break;
                        }
                        covered = to;
                        res.evaluated += to - from;
                        for k in v["keys"].as_array().unwrap() {
                            res.keys.insert(k.as_u64().unwrap());
                        }
                        for p in v["panics"].as_array().unwrap() {
                            res.panics.push((p[0].as_u64().unwrap(), p[1].as_str().unwrap().to_string()));
                        }
                        for m in v["meas"].as_array().unwrap() {
                            res.meas.push((m[0].as_u64().unwrap(), m[1].as_array().unwrap().iter().map(|x| x.as_u64().unwrap()).collect()));
                        }
                        for m in v["issues"].as_array().unwrap() {
                            res.issues.push((m[0].as_u64().unwrap(), m[1].as_str().unwrap().to_string(), m[2].as_str().unwrap().to_string()));
                        }
                    }
                }
                if let Some(how) = how {
                    let idx = read_progress(&r.prog).unwrap_or(covered).max(covered).min(r.job.end - 1);
                    if how == format!("exit {}", alloc::EXIT_MEMBUDGET) {
                        res.membudget.push(idx);
                    } else {
                        res.fatals.push(Fatal { idx, how });
                    }
                    res.evaluated += 1;
                    if covered < idx {
                        queue.push_back(Job { start: covered, end: idx });
                    }
                    if idx + 1 < r.job.end {
                        queue.push_back(Job { start: idx + 1, end: r.job.end });
                    }
                } else if covered != r.job.end {
                    eprintln!("MACHINERY: worker exited cleanly but covered {}..{} of {}..{}", r.job.start, covered, r.job.start, r.job.end);
                    std::process::exit(2);
                }
                let _ = std::fs::remove_file(&r.prog);
                let _ = std::fs::remove_file(&r.out);
            } else {
                i += 1;
            }
        }
    }
    res.wall_s = t0.elapsed().as_secs_f64();
    res.panics.sort();
    res.fatals.sort_by_key(|f| f.idx);
    res.meas.sort();
    res
}
