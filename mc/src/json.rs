//! Minimal order-preserving JSON reader, independent of serde (numbers are kept as their exact tokens).
#[derive(Clone, PartialEq, Debug)]
pub enum J {
    Null,
    Bool(bool),
    /// the number token exactly as written
    Num(String),
    Str(String),
    Arr(Vec<J>),
    Obj(Vec<(String, J)>),
}

pub fn parse(s: &str) -> Result<J, String> {
    let b = s.as_bytes();
    let mut p = 0usize;
    let v = value(b, &mut p)?;
    ws(b, &mut p);
    if p != b.len() {
        return Err(format!("trailing characters at {}", p));
    }
    Ok(v)
}
fn ws(b: &[u8], p: &mut usize) {
    while *p < b.len() && matches!(b[*p], b' ' | b'\n' | b'\r' | b'\t') {
        *p += 1;
    }
}
fn value(b: &[u8], p: &mut usize) -> Result<J, String> {
    ws(b, p);
    if *p >= b.len() {
        return Err("unexpected end".into());
    }
    match b[*p] {
        b'n' => lit(b, p, "null", J::Null),
        b't' => lit(b, p, "true", J::Bool(true)),
        b'f' => lit(b, p, "false", J::Bool(false)),
        b'"' => Ok(J::Str(string(b, p)?)),
        b'[' => {
            *p += 1;
            let mut v = vec![];
            ws(b, p);
            if *p < b.len() && b[*p] == b']' {
                *p += 1;
                return Ok(J::Arr(v));
            }
            loop {
                v.push(value(b, p)?);
                ws(b, p);
                match b.get(*p) {
                    Some(b',') => *p += 1,
                    Some(b']') => {
                        *p += 1;
                        return Ok(J::Arr(v));
                    }
                    _ => return Err(format!("expected , or ] at {}", p)),
                }
            }
        }
        b'{' => {
            *p += 1;
            let mut v = vec![];
            ws(b, p);
            if *p < b.len() && b[*p] == b'}' {
                *p += 1;
                return Ok(J::Obj(v));
            }
            loop {
                ws(b, p);
                if b.get(*p) != Some(&b'"') {
                    return Err(format!("expected key at {}", p));
                }
                let k = string(b, p)?;
                ws(b, p);
                if b.get(*p) != Some(&b':') {
                    return Err(format!("expected : at {}", p));
                }
                *p += 1;
                let val = value(b, p)?;
                v.push((k, val));
                ws(b, p);
                match b.get(*p) {
                    Some(b',') => *p += 1,
                    Some(b'}') => {
                        *p += 1;
                        return Ok(J::Obj(v));
                    }
                    _ => return Err(format!("expected , or }} at {}", p)),
                }
            }
        }
        b'-' | b'0'..=b'9' => {
            let s = *p;
            if b[*p] == b'-' {
                *p += 1;
            }
            let d0 = *p;
            while *p < b.len() && b[*p].is_ascii_digit() {
                *p += 1;
            }
            if *p == d0 {
                return Err(format!("bad number at {}", s));
            }
            if *p - d0 > 1 && b[d0] == b'0' {
                return Err(format!("leading zero at {}", s));
            }
            if *p < b.len() && b[*p] == b'.' {
                *p += 1;
                let f0 = *p;
                while *p < b.len() && b[*p].is_ascii_digit() {
                    *p += 1;
                }
                if *p == f0 {
                    return Err(format!("bad fraction at {}", s));
                }
            }
            if *p < b.len() && (b[*p] == b'e' || b[*p] == b'E') {
                *p += 1;
                if *p < b.len() && (b[*p] == b'+' || b[*p] == b'-') {
                    *p += 1;
                }
                let e0 = *p;
                while *p < b.len() && b[*p].is_ascii_digit() {
                    *p += 1;
                }
                if *p == e0 {
                    return Err(format!("bad exponent at {}", s));
                }
            }
            Ok(J::Num(String::from_utf8_lossy(&b[s..*p]).to_string()))
        }
        c => Err(format!("unexpected byte {:#x} at {}", c, p)),
    }
}
fn lit(b: &[u8], p: &mut usize, w: &str, v: J) -> Result<J, String> {
    if b[*p..].starts_with(w.as_bytes()) {
        *p += w.len();
        Ok(v)
    } else {
        Err(format!("bad literal at {}", p))
    }
}
fn string(b: &[u8], p: &mut usize) -> Result<String, String> {
    *p += 1;
    let mut out: Vec<u16> = vec![];
    let mut raw: Vec<u8> = vec![];
    let flush = |raw: &mut Vec<u8>, out: &mut Vec<u16>| -> Result<(), String> {
        if !raw.is_empty() {
            let s = std::str::from_utf8(raw).map_err(|_| "invalid UTF-8 inside a JSON string".to_string())?;
            out.extend(s.encode_utf16());
            raw.clear();
        }
        Ok(())
    };
    loop {
        let c = *b.get(*p).ok_or("unterminated string")?;
        *p += 1;
        match c {
            b'"' => {
                flush(&mut raw, &mut out)?;
                return String::from_utf16(&out).map_err(|_| "lone surrogate in JSON string".to_string());
            }
            b'\\' => {
                flush(&mut raw, &mut out)?;
                let e = *b.get(*p).ok_or("bad escape")?;
                *p += 1;
                match e {
                    b'"' => out.push(b'"' as u16),
                    b'\\' => out.push(b'\\' as u16),
                    b'/' => out.push(b'/' as u16),
                    b'b' => out.push(8),
                    b'f' => out.push(12),
                    b'n' => out.push(10),
                    b'r' => out.push(13),
                    b't' => out.push(9),
                    b'u' => {
                        let h = b.get(*p..*p + 4).ok_or("bad \\u")?;
                        let x = u16::from_str_radix(std::str::from_utf8(h).map_err(|_| "bad \\u")?, 16).map_err(|_| "bad \\u")?;
                        out.push(x);
                        *p += 4;
                    }
                    _ => return Err("bad escape".into()),
                }
            }
            0..=0x1f => return Err("raw control character in string".into()),
            c => raw.push(c),
        }
    }
}
