//! C07 — data for an unknown template is never turned into flow records (E-HIST: probes in every reachable state).
use super::c06::*;
use crate::cform::*;
use crate::engine::*;
use crate::explore::*;
use crate::refmodel::*;
use crate::util::*;
use crate::wire::*;
use netflow_parser::variable_versions::{ipfix, v9};
use netflow_parser::NetflowPacket;
use std::time::Instant;

/// ids probed when absent: the alphabet's ids, one never defined, and ids that collide with a defined one under a
/// truncated / masked lookup (id + 256, id with the top bit set), and two ids below 256 (a set with such an id is not a
/// template set either: it references a template nobody can have defined)
const IDS: [u16; 8] = [256, 257, 300, 512, 513, 33024, 255, 4];

fn has_records_for(res: &[NetflowPacket], proto: u16, id: u16) -> bool {
    res.iter().any(|e| match e {
        NetflowPacket::V9(x) if proto == 9 => x.flowsets.iter().any(|s| s.header.flowset_id == id && matches!(s.body, v9::FlowSetBody::Data(_) | v9::FlowSetBody::OptionsData(_))),
        NetflowPacket::IPFix(x) if proto == 10 => x.flowsets.iter().any(|s| s.header.header_id == id && matches!(s.body, ipfix::FlowSetBody::Data(_) | ipfix::FlowSetBody::OptionsData(_))),
        _ => false,
    })
}

/// probes for one (instance, protocol, absent id) in one state
fn probe_one(m: &HistModel, st: &St, i: usize, proto: u16, id: u16, other_id: u16, out: &mut Vec<Issue>) {
    // the data bytes are at the same time a well-formed template record (id 300.., two fields): a parser that mistakes
    // the set for a template set changes its caches
    let mut body: Vec<u8> = vec![];
    p16(&mut body, 300 + id % 5);
    p16(&mut body, 2);
    for x in [1u16, 4, 2, 4] {
        p16(&mut body, x);
    }
    let pn = if proto == 9 { "v9" } else { "ipfix" };
    // the other id counts as known only if data for it can actually be decoded (a V9 definition without fields cannot)
    let decodable = |t: Option<&RefTpl>| match t {
        Some(RefTpl::Plain(f)) => (1..=12).contains(&f.iter().map(|x| x.len as usize).sum::<usize>()), // one record fits the 12-byte probe body
        Some(_) => true,
        None => false,
    };
    let other_known = if proto == 9 { decodable(st.refc[i].v9.get(&other_id)) } else { decodable(st.refc[i].ipfix.get(&other_id)) };
    let lay_a = vec![fs(1, 4), fs(7, 2)];
    let mk = |sets: &[(&str, u16)]| -> Vec<u8> {
        if proto == 9 {
            crate::wire::v9_packet(&V9Pkt::new(
                sets.iter()
                    .map(|(k, sid)| match *k {
                        "T" => V9Set::Tpl(vec![V9Tpl { id: *sid, fields: lay_a.clone() }], 0),
                        _ => V9Set::Data(*sid, body.clone()),
                    })
                    .collect(),
            ))
        } else {
            ipfix_message(&IpfixMsg::new(
                sets.iter()
                    .map(|(k, sid)| match *k {
                        "T" => IpfixSet::Tpl(vec![IpfixTpl { id: *sid, fields: lay_a.clone() }], 0),
                        _ => IpfixSet::Data(*sid, body.clone()),
                    })
                    .collect(),
            ))
        }
    };
    // positions: alone; last (after a template for another id); first; middle; after other packets in the buffer
    let alone = mk(&[("D", id)]);
    let mut probes: Vec<(&str, Vec<u8>, bool)> = vec![("alone", alone.clone(), true)];
    probes.push(("last-set", mk(&[("T", 900), ("D", id)]), false));
    probes.push(("first-set", mk(&[("D", id), ("T", 901)]), false));
    probes.push(("middle-set", mk(&[("T", 902), ("D", id), ("D", 902)]), false));
    // (a packet of a disallowed version would end the result silently before the probe data is even looked at)
    if m.is_allowed(i, 5) {
        let v5 = fixed_distinct(5, 1, 8);
        let mut after = v5.clone();
        after.extend_from_slice(&alone);
        probes.push(("after-a-V5-packet-in-the-buffer", after, true));
    }
    if other_known {
        let mut b = mk(&[("D", other_id)]);
        b.extend_from_slice(&alone);
        probes.push(("after-a-decodable-data-packet-in-the-buffer", b, true));
    }
    // in the SAME packet behind a decodable data flowset / set: for a template this probe defines itself, and for
    // the other id when the state can decode it
    probes.push(("behind-decodable-data-in-the-same-packet", mk(&[("T", 904), ("D", 904), ("D", id)]), false));
    if other_known {
        probes.push(("behind-data-for-a-cached-id-in-the-same-packet", mk(&[("D", other_id), ("D", id)]), true));
    }
    // record-less data for the unknown id (flowset / set length 4): still data for an unknown template
    {
        let mk_empty = |sets: &[(&str, u16)]| -> Vec<u8> {
            if proto == 9 {
                crate::wire::v9_packet(&V9Pkt::new(sets.iter().map(|(k, sid)| match *k {
                    "T" => V9Set::Tpl(vec![V9Tpl { id: *sid, fields: lay_a.clone() }], 0),
                    "E" => V9Set::Data(*sid, vec![]),
                    _ => V9Set::Data(*sid, body.clone()),
                }).collect()))
            } else {
                ipfix_message(&IpfixMsg::new(sets.iter().map(|(k, sid)| match *k {
                    "T" => IpfixSet::Tpl(vec![IpfixTpl { id: *sid, fields: lay_a.clone() }], 0),
                    "E" => IpfixSet::Data(*sid, vec![]),
                    _ => IpfixSet::Data(*sid, body.clone()),
                }).collect()))
            }
        };
        probes.push(("record-less-alone", mk_empty(&[("E", id)]), true));
        probes.push(("record-less-behind-decodable-data-in-the-same-packet", mk_empty(&[("T", 905), ("D", 905), ("E", id)]), false));
    }
    let allowed = m.is_allowed(i, proto);
    for (pos, bytes, pure_probe) in probes {
        let mut p = match m.rebuild(i, &st.enc[i]) {
            Some(p) => p,
            None => return,
        };
        let before = enc_of(&p);
        let res = p.parse_bytes(&bytes);
        if has_records_for(&res, proto, id) {
            out.push(issue(format!("{}/records-for-unknown-template/{}", pn, pos), format!("instance {} (allowed {:?}) reports decoded records for {} id {} which it never learned; probe {}", i, m.allowed[i], pn, id, hex(&bytes))));
            continue;
        }
        if !allowed {
            continue;
        }
        // V9: the packet containing it is the final error; IPFIX: the message holds exactly the sets before it
        let last = res.last();
        if proto == 9 {
            match last {
                Some(NetflowPacket::Error(_)) => {}
                _ => out.push(issue(format!("v9/unknown-template-packet-not-an-error/{}", pos), format!("instance {}: probe {} -> {} elements, last is not an error", i, hex(&bytes), res.len()))),
            }
        } else {
            match last {
                Some(NetflowPacket::IPFix(x)) => {
                    let expect_before = match pos {
                        "last-set" | "middle-set" | "behind-data-for-a-cached-id-in-the-same-packet" => 1,
                        "behind-decodable-data-in-the-same-packet" | "record-less-behind-decodable-data-in-the-same-packet" => 2,
                        _ => 0,
                    };
                    let n_before = x.flowsets.iter().take_while(|s| s.header.header_id != id).count();
                    if n_before < expect_before {
                        out.push(issue(format!("ipfix/sets-before-unknown-template-lost/{}", pos), format!("instance {}: probe {}: {} of {} earlier sets reported", i, hex(&bytes), n_before, expect_before)));
                    }
                }
                _ => out.push(issue(format!("ipfix/unknown-template-message-not-reported/{}", pos), format!("instance {}: probe {} -> last element is not the IPFIX message", i, hex(&bytes)))),
            }
        }
        // earlier packets of the buffer are reported exactly as when sent alone
        if pos.starts_with("after-") {
            let first_len = bytes.len() - alone.len();
            let mut p2 = m.rebuild(i, &st.enc[i]).unwrap();
            let solo = p2.parse_bytes(&bytes[..first_len]);
            if solo.len() != 1 || res.is_empty() || format!("{:?}", solo[0]) != format!("{:?}", res[0]) {
                out.push(issue(format!("{}/earlier-packet-changed-by-unknown-template-data", pn), format!("instance {}: probe {}", i, hex(&bytes))));
            }
        }
        // "the caches are unchanged by it": a template that precedes it in the same packet is learned as usual
        if pos == "last-set" {
            let mut p3 = m.rebuild(i, &st.enc[i]).unwrap();
            p3.parse_bytes(&mk(&[("T", 900)]));
            if enc_of(&p) != enc_of(&p3) {
                out.push(issue(format!("{}/template-before-unknown-template-data-not-learned", pn), format!("instance {}: after probe {} the caches differ from those after the template set alone", i, hex(&bytes))));
            }
        }
        // caches unchanged when the packet contains nothing else
        if pure_probe && enc_of(&p) != before {
            out.push(issue(format!("{}/cache-changed-by-unknown-template-data/{}", pn, pos), format!("instance {}: probe {}", i, hex(&bytes))));
        }
    }
    // the parser that LIVED the history (not one rebuilt from the cache snapshot): state kept in the parser object
    // outside the two maps - a displaced definition, a "current template" - shows only here
    {
        let mut p = m.replay(i, &st.hist);
        let d = mk(&[("D", id)]);
        let res = p.parse_bytes(&d);
        if has_records_for(&res, proto, id) {
            out.push(issue(format!("{}/records-for-unknown-template/on-the-parser-that-lived-the-history", pn), format!("instance {} after the history of this state reports decoded records for {} id {} which it never learned; probe {}", i, pn, id, hex(&d))));
        }
    }
    // another parser instance that DOES hold the id decodes the same data first, on this very thread; then this
    // instance is offered it (state kept per thread or per process instead of per parser shows here, whatever thread
    // the search happens to evaluate the state on)
    for j in 0..m.ninst {
        let other_holds = if proto == 9 { decodable(st.refc[j].v9.get(&id)) } else { decodable(st.refc[j].ipfix.get(&id)) };
        if j == i || !other_holds || !m.is_allowed(j, proto) {
            continue;
        }
        if let (Some(mut pj), Some(mut pi)) = (m.rebuild(j, &st.enc[j]), m.rebuild(i, &st.enc[i])) {
            let d = mk(&[("D", id)]);
            let rj = pj.parse_bytes(&d);
            let ri = pi.parse_bytes(&d);
            if has_records_for(&rj, proto, id) {
                m.guard("data-for-absent-id-in-non-empty-cache");
            }
            if has_records_for(&ri, proto, id) {
                out.push(issue(format!("{}/records-for-unknown-template/after-another-instance-decoded-it", pn), format!("instance {} reports decoded records for {} id {} right after instance {} (which holds the template) decoded the same data; probe {}", i, pn, id, j, hex(&d))));
            }
        }
    }
    if allowed {
        // the common-flow entry point on one buffer [packet with data for the unknown id][packet with its template]: it
        // yields exactly the flows of what parse_bytes reports for that buffer (none from the unknown data)
        let mut buf = mk(&[("D", id)]);
        buf.extend(mk(&[("T", id)]));
        if let (Some(mut p1), Some(mut p2)) = (m.rebuild(i, &st.enc[i]), m.rebuild(i, &st.enc[i])) {
            let via_parse: usize = p1.parse_bytes(&buf).iter().filter_map(|e| e.as_netflow_common().ok()).map(|c| c.flowsets.len()).sum();
            let via_helper = p2.parse_bytes_as_netflow_common_flowsets(&buf).len();
            if via_helper != via_parse {
                out.push(issue(format!("{}/records-for-unknown-template/through-the-common-flow-helper", pn), format!("instance {}: parse_bytes_as_netflow_common_flowsets returns {} flows for a buffer whose parse_bytes result converts to {}; buffer {}", i, via_helper, via_parse, hex(&buf))));
            }
        }
    }
    if allowed {
        // the same unknown-id data offered again (and again after data for a known id): still no records
        let mut p = m.rebuild(i, &st.enc[i]).unwrap();
        let alone = mk(&[("D", id)]);
        let mut seq: Vec<Vec<u8>> = vec![];
        if other_known {
            seq.push(mk(&[("D", other_id)]));
        }
        seq.extend([alone.clone(), alone.clone(), alone.clone()]);
        if other_known {
            seq.push(mk(&[("D", other_id)]));
            seq.push(alone.clone());
        }
        for (k, b) in seq.iter().enumerate() {
            let res = p.parse_bytes(b);
            if has_records_for(&res, proto, id) {
                out.push(issue(format!("{}/records-for-unknown-template/repeated-offer", pn), format!("instance {}: call {} of the sequence {:?} reports records for the unknown id {}", i, k, seq.iter().map(|x| hex(x)).collect::<Vec<_>>(), id)));
                break;
            }
        }
    }
    if allowed {
        // once the template is received the same data bytes decode normally (reference decode), however the
        // template arrives: alone, after a new template for another id in the same flowset/set, or (V9) after a
        // byte-identical copy of a template the parser already holds
        let alone = mk(&[("D", id)]);
        let mut deliveries: Vec<(&str, Vec<u8>)> = vec![("alone", mk(&[("T", id)]))];
        if proto == 9 {
            deliveries.push(("after-a-new-template-in-the-same-flowset", v9_packet(&V9Pkt::new(vec![V9Set::Tpl(vec![V9Tpl { id: 903, fields: lay_a.clone() }, V9Tpl { id, fields: lay_a.clone() }], 0)]))));
            if let Some(RefTpl::Plain(f)) = st.refc[i].v9.get(&other_id) {
                deliveries.push(("after-a-copy-of-a-cached-template-in-the-same-flowset", v9_packet(&V9Pkt::new(vec![V9Set::Tpl(vec![V9Tpl { id: other_id, fields: f.clone() }, V9Tpl { id, fields: lay_a.clone() }], 0)]))));
            }
        } else {
            deliveries.push(("after-another-template-set-in-the-same-message", ipfix_message(&IpfixMsg::new(vec![IpfixSet::Tpl(vec![IpfixTpl { id: 903, fields: lay_a.clone() }], 0), IpfixSet::Tpl(vec![IpfixTpl { id, fields: lay_a.clone() }], 0)]))));
            if let Some(RefTpl::Plain(f)) = st.refc[i].ipfix.get(&other_id) {
                deliveries.push(("after-a-copy-of-a-cached-template-in-the-same-message", ipfix_message(&IpfixMsg::new(vec![IpfixSet::Tpl(vec![IpfixTpl { id: other_id, fields: f.clone() }], 0), IpfixSet::Tpl(vec![IpfixTpl { id, fields: lay_a.clone() }], 0)]))));
            }
        }
        for (how, t) in deliveries {
            let mut p = m.rebuild(i, &st.enc[i]).unwrap();
            p.parse_bytes(&alone);
            p.parse_bytes(&t);
            let got: Vec<CPkt> = p.parse_bytes(&alone).iter().map(c_pkt).collect();
            let mut rc = st.refc[i].clone();
            let _ = ref_buffer(&t, &mut rc);
            let exp = ref_buffer(&alone, &mut rc).expect("probe outside reference domain");
            for mut is in crate::diff::diff_list(&exp, &got) {
                is.sig = format!("{}/late-template/{}/{}", pn, how, is.sig);
                out.push(is);
            }
        }
    }
}

pub fn probe(m: &HistModel, st: &St) -> Vec<Issue> {
    let mut out = vec![];
    for i in 0..m.ninst {
        for proto in [9u16, 10] {
            for id in IDS {
                let known = if proto == 9 { st.refc[i].v9.contains_key(&id) } else { st.refc[i].ipfix.contains_key(&id) };
                // also when the lib itself thinks it does not hold it but the reference does: still "absent" for the lib
                let lib_has = st.enc[i].iter().any(|(mm, eid, _)| (*mm / 2 == 0) == (proto == 9) && *eid == id);
                // (an id the reference never received but the real cache holds - invented, leaked, or remembered from
                // rejected input - is still an id "for which the parser holds no template" a collector ever sent it)
                let _ = lib_has;
                if known {
                    continue;
                }
                let elsewhere = (0..m.ninst).any(|j| st.refc[j].v9.contains_key(&id) || st.refc[j].ipfix.contains_key(&id));
                if elsewhere {
                    m.guard("data-for-absent-id-in-non-empty-cache");
                }
                let other_id = if id == 256 { 257 } else { 256 };
                probe_one(m, st, i, proto, id, other_id, &mut out);
            }
        }
    }
    out.sort_by(|a, b| a.sig.cmp(&b.sig));
    out.dedup_by(|a, b| a.sig == b.sig);
    out
}

pub fn run(tier: &str) -> i32 {
    let t0 = Instant::now();
    let runs = configs(tier, || Some(Box::new(probe)));
    // the transition-level issues of these runs are C06's; keep only the probe issues (signatures of this file)
    for r in &runs {
        let mut c = r.model.collected.lock().unwrap();
        c.issues.retain(|k, _| k.contains("unknown-template") || k.contains("late-template"));
    }
    report(
        "C07",
        tier,
        runs,
        "in EVERY state of the reachable (real caches x reference cache) graph of C06's action alphabet, for every (instance, protocol, id in {256,257,300}) the state lacks - including ids held only by the other protocol or the other instance - data for that id is offered alone, as first / middle / last set of a packet and after other packets in the same buffer; oracle: no decoded records for it, V9 packet is the final error, IPFIX message keeps the sets before it, caches unchanged, earlier packets unchanged, and after the template arrives the same bytes decode as the reference says",
        &["data-for-absent-id-in-non-empty-cache"],
        t0,
        true,
        None,
    )
}
