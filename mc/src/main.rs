//! nfmc — bounded-exhaustive model checking harness for netflow_parser (see /verif/DESIGN.md).
mod alloc;
mod alphabet;
mod cform;
mod diff;
mod engine;
mod explore;
mod families;
mod ladder;
mod menu;
mod sweep;
mod iana;
mod json;
mod props;
mod reexport;
mod refmodel;
mod util;
mod wire;

#[global_allocator]
static A: alloc::Counting = alloc::Counting;

static PANIC_NOTE: std::sync::Mutex<String> = std::sync::Mutex::new(String::new());

/// wrap an exercise so that a panic inside it is reported with the note left by the panic hook
fn with_note(f: fn(&families::Case, u64) -> sweep::Obs) -> impl Fn(&families::Case, u64) -> sweep::Obs + Sync + Send {
    move |c, i| match std::panic::catch_unwind(std::panic::AssertUnwindSafe(|| f(c, i))) {
        Ok(o) => o,
        Err(_) => sweep::Obs { key: 0, panic: Some(PANIC_NOTE.lock().unwrap().clone()), meas: vec![], issues: vec![] },
    }
}

fn main() {
    let args: Vec<String> = std::env::args().collect();
    if args.len() < 2 {
        eprintln!("usage: nfmc run <ID> <quick|thorough> | nfmc replay <file>");
        std::process::exit(2);
    }
    let threads = std::env::var("NFMC_THREADS").ok().and_then(|s| s.parse().ok()).unwrap_or(16);
    rayon::ThreadPoolBuilder::new().num_threads(threads).stack_size(16 << 20).build_global().ok();
    let code = match args[1].as_str() {
        "run" => {
            // panics of the subject are caught per evaluation and reported by the engines; keep stderr readable
            std::panic::set_hook(Box::new(|info| {
                let loc = info.location().map(|l| format!("{}:{}", l.file(), l.line())).unwrap_or_default();
                engine::LAST_PANIC_LOC.with(|l| *l.borrow_mut() = loc.clone());
                if loc.starts_with("src/") {
                    eprintln!("panic in harness at {}: {}", loc, info);
                }
            }));
            let id = args.get(2).map(|s| s.as_str()).unwrap_or("");
            let tier = args.get(3).map(|s| s.as_str()).unwrap_or("quick");
            match id {
                "C01" => props::c01::run(tier),
                "C02" => props::c02::run(tier),
                "C03" => props::c03::run(tier),
                "C04" => props::c04::run(tier),
                "C05" => props::c05::run(tier),
                "C06" => props::c06::run(tier),
                "C07" => props::c07::run(tier),
                "C08" => props::c08::run(tier),
                "C09" => props::c09::run(tier),
                "C10" => props::c10::run(tier),
                "C11" => props::c11::run(tier),
                "C12" => props::c12::run(tier),
                "C13" => props::c13::run(tier),
                "C14" => props::c14::run(tier),
                "C15" => props::c15::run(tier),
                "C16" => props::c16::run(tier),
                "C17" => props::c17::run(tier),
                _ => {
                    eprintln!("unknown property {}", id);
                    2
                }
            }
        }
        "replay" => replay(args.get(2).map(|s| s.as_str()).unwrap_or("")),
        "dump" => props::c17::dump(args.get(2).map(|s| s.as_str()).unwrap_or("quick"), &args[3]),
        "ladder-timing" => {
            ladder_timing();
            0
        }
        "worker" => {
            // nfmc worker <mode> <tier> <family-index> <start> <end> <progress> <out> <budget>
            let mode = args[2].as_str();
            let tier = args[3].as_str();
            let fi: usize = args[4].parse().unwrap();
            let start: u64 = args[5].parse().unwrap();
            let end: u64 = args[6].parse().unwrap();
            let budget: u64 = args[9].parse().unwrap();
            std::panic::set_hook(Box::new(|info| {
                // keep the location for the parent: "<stage> @ <file:line>: <message>"
                let loc = info.location().map(|l| format!("{}:{}", l.file().rsplit("/src/").next().unwrap_or(l.file()), l.line())).unwrap_or_default();
                let msg = info.payload().downcast_ref::<String>().cloned().or_else(|| info.payload().downcast_ref::<&str>().map(|s| s.to_string())).unwrap_or_default();
                let stage = props::c01::STAGES[props::c01::STAGE.load(std::sync::atomic::Ordering::Relaxed) as usize % 7];
                *PANIC_NOTE.lock().unwrap() = format!("{} @ {}: {}", stage, loc, msg);
            }));
            let (fam, ex): (std::sync::Arc<dyn families::Family>, std::sync::Arc<sweep::Exercise>) = match mode {
                "c01-release" => (props::c01::families(tier, "release").swap_remove(fi).0, std::sync::Arc::new(with_note(props::c01::exercise))),
                "c15" => (props::c15::families(tier).swap_remove(fi).0, std::sync::Arc::new(with_note(props::c15::exercise))),
                "c01-dev" => (props::c01::families(tier, "dev").swap_remove(fi).0, std::sync::Arc::new(with_note(props::c01::exercise))),
                _ => {
                    eprintln!("unknown worker mode {}", mode);
                    std::process::exit(2)
                }
            };
            sweep::worker(fam, ex, start, end, &args[7], &args[8], budget)
        }
        _ => 2,
    };
    std::process::exit(code);
}

/// developer aid: time every rung of the scale ladder at its largest sizes (in-process, release)
pub fn ladder_timing() {
    for r in ladder::rungs() {
        for n in [r.max / 2, r.max] {
            let case = (r.build)(n);
            let t = std::time::Instant::now();
            alloc::reset();
            let mut p = cform::new_parser(None);
            for h in &case.prior {
                p.parse_bytes(h);
            }
            let res = p.parse_bytes(&case.input);
            let c = alloc::read();
            println!("{:<55} n={:<6} len={:<6} elems={:<5} {:>8.1} ms  total_alloc={:>12} peak={:>12}", r.name, n, case.input.len(), res.len(), t.elapsed().as_secs_f64() * 1e3, c.total, c.peak);
        }
    }
}

fn spaces_for(prop: &str, tier: &str) -> Option<Vec<Box<dyn engine::Space>>> {
    let st = |g: Vec<props::stream::StreamGen>| -> Vec<Box<dyn engine::Space>> { g.into_iter().map(|g| g.into_space(|c| props::stream::judge_stream(c).eval)).collect() };
    Some(match prop {
        "C01" => props::c01::replay_spaces(tier),
        "C02" => props::c02::spaces(tier),
        "C03" => props::c03::spaces(tier),
        "C04" => st(props::c04::streams(tier)),
        "C05" => st(props::c05::streams(tier)),
        "C08" => props::c08::spaces(tier),
        "C09" => props::c09::spaces(tier),
        "C10" => props::c10::spaces(tier),
        "C11" => props::c11::spaces(tier),
        "C12" => props::c12::spaces(tier),
        "C13" => props::c13::spaces(tier),
        "C14" => props::c14::spaces(tier),
        "C15" => props::c15::replay_spaces(tier),
        "C16" => props::c16::spaces(tier),
        _ => return None,
    })
}

/// `nfmc replay <file>`: re-run one recorded violation; exit 1 if it reproduces, 0 if it does not, 2 on error
fn replay(file: &str) -> i32 {
    let text = match std::fs::read_to_string(file) {
        Ok(t) => t,
        Err(e) => {
            eprintln!("cannot read {}: {}", file, e);
            return 2;
        }
    };
    let v: serde_json::Value = match serde_json::from_str(&text) {
        Ok(v) => v,
        Err(e) => {
            eprintln!("cannot parse {}: {}", file, e);
            return 2;
        }
    };
    let prop = v["property"].as_str().unwrap_or("");
    let tier = v["tier"].as_str().unwrap_or("quick");
    if prop == "C06" || prop == "C07" {
        return props::c06::replay(&v);
    }
    if prop == "C17" {
        return props::c17::run(tier);
    }
    let spaces = match spaces_for(prop, tier) {
        Some(s) => s,
        None => {
            eprintln!("unknown property {}", prop);
            return 2;
        }
    };
    let name = v["space"].as_str().unwrap_or("");
    let idx = v["index"].as_u64().unwrap_or(0);
    let want = v["signature"].as_str().unwrap_or("");
    let sp = match spaces.iter().find(|s| s.name() == name) {
        Some(s) => s,
        None => {
            eprintln!("space {:?} not found for {} tier {}", name, prop, tier);
            return 2;
        }
    };
    println!("{} {}[{}]\ncase: {}", prop, name, idx, sp.describe(idx));
    let pred = v["predecessors_needed"].as_u64().unwrap_or(0);
    for j in idx.saturating_sub(pred)..idx {
        let _ = sp.eval(j);
    }
    let e = sp.eval(idx);
    let mut hit = false;
    for i in &e.issues {
        println!("  {} :: {}", i.sig, i.detail);
        hit |= i.sig == want;
    }
    println!("{}", if hit { "REPRODUCED" } else { "not reproduced" });
    if hit {
        1
    } else {
        0
    }
}
