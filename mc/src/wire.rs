//! Byte builders (generator side).  Nothing here is shared with the reference decoder except `FieldSpec`.
use crate::util::{p16, p32};

#[derive(Clone, Copy, Debug, PartialEq, Eq, Hash, PartialOrd, Ord)]
pub struct FieldSpec {
    /// information element / field type number WITHOUT the enterprise bit
    pub ty: u16,
    /// declared length (65535 = IPFIX variable length)
    pub len: u16,
    /// IPFIX private enterprise number (sets the enterprise bit on the wire)
    pub pen: Option<u32>,
}
pub const fn fs(ty: u16, len: u16) -> FieldSpec {
    FieldSpec { ty, len, pen: None }
}
pub const fn fse(ty: u16, len: u16, pen: u32) -> FieldSpec {
    FieldSpec { ty, len, pen: Some(pen) }
}

// ------------------------------------------------------------------------------------------------ V5 / V7

/// 24-byte header (version + 22 bytes) followed by records
pub fn fixed_packet(version: u16, count: u16, hdr_rest: &[u8; 20], recs: &[Vec<u8>]) -> Vec<u8> {
    let mut v = Vec::with_capacity(24 + recs.len() * 52);
    p16(&mut v, version);
    p16(&mut v, count);
    v.extend_from_slice(hdr_rest);
    for r in recs {
        v.extend_from_slice(r);
    }
    v
}

pub fn rec_size(version: u16) -> usize {
    if version == 5 {
        48
    } else {
        52
    }
}

/// byte-distinct V5/V7 packet with `n` records; `salt` varies contents
pub fn fixed_distinct(version: u16, n: usize, salt: usize) -> Vec<u8> {
    let mut h = [0u8; 20];
    for (j, b) in h.iter_mut().enumerate() {
        *b = crate::util::fill(salt + 200, j);
    }
    let rs = rec_size(version);
    let recs: Vec<Vec<u8>> = (0..n)
        .map(|i| (0..rs).map(|j| crate::util::fill(salt + i, j + 20)).collect())
        .collect();
    fixed_packet(version, n as u16, &h, &recs)
}

// ------------------------------------------------------------------------------------------------ V9

#[derive(Clone, Debug, PartialEq, Eq, Hash)]
pub struct V9Tpl {
    pub id: u16,
    pub fields: Vec<FieldSpec>,
}
#[derive(Clone, Debug, PartialEq, Eq, Hash)]
pub struct V9OptTpl {
    pub id: u16,
    pub scope: Vec<FieldSpec>,
    pub opts: Vec<FieldSpec>,
}
#[derive(Clone, Debug, PartialEq, Eq, Hash)]
pub enum V9Set {
    Tpl(Vec<V9Tpl>, usize),
    OptTpl(Vec<V9OptTpl>, usize),
    /// id, body bytes (records followed by padding)
    Data(u16, Vec<u8>),
}
#[derive(Clone, Debug, PartialEq, Eq, Hash)]
pub struct V9Pkt {
    /// None = number of flowsets
    pub count: Option<u16>,
    pub sys_up_time: u32,
    pub unix_secs: u32,
    pub seq: u32,
    pub source_id: u32,
    pub sets: Vec<V9Set>,
}
impl V9Pkt {
    pub fn new(sets: Vec<V9Set>) -> Self {
        V9Pkt { count: None, sys_up_time: 0x0102_0304, unix_secs: 0x6553_f100, seq: 0x0000_0a0b, source_id: 0x0c0d_0e0f, sets }
    }
}

pub fn v9_set(s: &V9Set) -> Vec<u8> {
    let mut body = vec![];
    let id = match s {
        V9Set::Tpl(ts, pad) => {
            for t in ts {
                p16(&mut body, t.id);
                p16(&mut body, t.fields.len() as u16);
                for f in &t.fields {
                    p16(&mut body, f.ty);
                    p16(&mut body, f.len);
                }
            }
            body.extend(std::iter::repeat(0).take(*pad));
            0
        }
        V9Set::OptTpl(ts, pad) => {
            for t in ts {
                p16(&mut body, t.id);
                p16(&mut body, (t.scope.len() * 4) as u16);
                p16(&mut body, (t.opts.len() * 4) as u16);
                for f in t.scope.iter().chain(t.opts.iter()) {
                    p16(&mut body, f.ty);
                    p16(&mut body, f.len);
                }
            }
            body.extend(std::iter::repeat(0).take(*pad));
            1
        }
        V9Set::Data(id, b) => {
            body.extend_from_slice(b);
            *id
        }
    };
    let mut v = vec![];
    p16(&mut v, id);
    p16(&mut v, (body.len() + 4) as u16);
    v.extend(body);
    v
}

pub fn v9_packet(p: &V9Pkt) -> Vec<u8> {
    let mut v = vec![];
    p16(&mut v, 9);
    p16(&mut v, p.count.unwrap_or(p.sets.len() as u16));
    p32(&mut v, p.sys_up_time);
    p32(&mut v, p.unix_secs);
    p32(&mut v, p.seq);
    p32(&mut v, p.source_id);
    for s in &p.sets {
        v.extend(v9_set(s));
    }
    v
}

// ------------------------------------------------------------------------------------------------ IPFIX

#[derive(Clone, Debug, PartialEq, Eq, Hash)]
pub struct IpfixTpl {
    pub id: u16,
    pub fields: Vec<FieldSpec>,
}
#[derive(Clone, Debug, PartialEq, Eq, Hash)]
pub struct IpfixOptTpl {
    pub id: u16,
    pub scope_count: u16,
    pub fields: Vec<FieldSpec>,
}
#[derive(Clone, Debug, PartialEq, Eq, Hash)]
pub enum IpfixSet {
    Tpl(Vec<IpfixTpl>, usize),
    OptTpl(Vec<IpfixOptTpl>, usize),
    Data(u16, Vec<u8>),
}
#[derive(Clone, Debug, PartialEq, Eq, Hash)]
pub struct IpfixMsg {
    pub export_time: u32,
    pub seq: u32,
    pub odid: u32,
    pub sets: Vec<IpfixSet>,
}
impl IpfixMsg {
    pub fn new(sets: Vec<IpfixSet>) -> Self {
        IpfixMsg { export_time: 0x6553_f1a2, seq: 0x0000_1c2d, odid: 0x3e4f_5a6b, sets }
    }
}

pub fn ipfix_fieldspec(v: &mut Vec<u8>, f: &FieldSpec) {
    match f.pen {
        Some(pen) => {
            p16(v, f.ty | 0x8000);
            p16(v, f.len);
            p32(v, pen);
        }
        None => {
            p16(v, f.ty);
            p16(v, f.len);
        }
    }
}

pub fn ipfix_set(s: &IpfixSet) -> Vec<u8> {
    let mut body = vec![];
    let id = match s {
        IpfixSet::Tpl(ts, pad) => {
            for t in ts {
                p16(&mut body, t.id);
                p16(&mut body, t.fields.len() as u16);
                for f in &t.fields {
                    ipfix_fieldspec(&mut body, f);
                }
            }
            body.extend(std::iter::repeat(0).take(*pad));
            2
        }
        IpfixSet::OptTpl(ts, pad) => {
            for t in ts {
                p16(&mut body, t.id);
                p16(&mut body, t.fields.len() as u16);
                p16(&mut body, t.scope_count);
                for f in &t.fields {
                    ipfix_fieldspec(&mut body, f);
                }
            }
            body.extend(std::iter::repeat(0).take(*pad));
            3
        }
        IpfixSet::Data(id, b) => {
            body.extend_from_slice(b);
            *id
        }
    };
    let mut v = vec![];
    p16(&mut v, id);
    p16(&mut v, (body.len() + 4) as u16);
    v.extend(body);
    v
}

pub fn ipfix_message(m: &IpfixMsg) -> Vec<u8> {
    let mut body = vec![];
    for s in &m.sets {
        body.extend(ipfix_set(s));
    }
    let mut v = vec![];
    p16(&mut v, 10);
    p16(&mut v, (16 + body.len()) as u16);
    p32(&mut v, m.export_time);
    p32(&mut v, m.seq);
    p32(&mut v, m.odid);
    v.extend(body);
    v
}

/// Encode one IPFIX field value: fixed width -> bytes as is; variable length -> prefix (long form when
/// `long` or len >= 255) + bytes.
pub fn ipfix_field_bytes(spec: &FieldSpec, val: &[u8], long: bool) -> Vec<u8> {
    let mut v = vec![];
    if spec.len == 65535 {
        if long || val.len() >= 255 {
            v.push(255);
            p16(&mut v, val.len() as u16);
        } else {
            v.push(val.len() as u8);
        }
    }
    v.extend_from_slice(val);
    v
}
