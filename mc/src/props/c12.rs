//! C12 — allowed_versions filters by version and nothing else (E-ENUM: configurations x buffers x states).
use crate::alphabet::{list_at, list_count};
use crate::cform::*;
use crate::engine::*;
use crate::menu;
use crate::util::*;
use netflow_parser::{NetflowPacket, NetflowParseError, NetflowParser};
use serde_json::json;

/// the 15-packet menu of this property: the 12 self-delimiting packets + version-6, version-0, truncated V9
const MENU: [usize; 29] = [0, 1, 2, 3, 4, 5, 6, 7, 8, 9, 10, 11, 12, 13, 14, 15, 16, menu::VERSION_6, menu::VERSION_0, menu::V9_TRUNCATED, menu::V9_D_ABSENT, 22, 23, 24, 25, 26, 27, 28, 29];

fn wire_len(e: &NetflowPacket, rest: usize) -> (u16, usize) {
    match e {
        NetflowPacket::V5(x) => (5, 24 + 48 * x.header.count as usize),
        NetflowPacket::V7(x) => (7, 24 + 52 * x.header.count as usize),
        NetflowPacket::V9(x) => (9, 20 + x.flowsets.iter().map(|s| (s.header.length as usize).max(4)).sum::<usize>()),
        NetflowPacket::IPFix(x) => (10, (x.header.length as usize).max(16)),
        NetflowPacket::Error(er) => (if er.remaining.len() >= 2 { r16(&er.remaining, 0) } else { 0xffff }, rest),
    }
}

fn all_allowing(p: &mut NetflowParser) {
    p.allowed_versions = (0..=65535u16).collect();
}

/// six prior histories, delivered UNDER the configuration being judged (each of their calls is judged like the main
/// one): the four of the shared menu, and two that contain allowed-or-not unparsable versions and garbage
const NPRIOR: u64 = 6;
const NLATE: u64 = 3;
fn prior_calls(k: usize) -> Vec<Vec<u8>> {
    match k {
        0..=3 => menu::prior_state(k),
        // 6..=8: the histories 1..=3 delivered BEFORE the configuration is set (the set is narrowed on a parser whose
        // caches already hold templates of versions the new set may not allow)
        6..=8 => menu::prior_state(k - 5),
        4 => vec![menu::packet(menu::VERSION_6, 60), menu::packet(3, 61)],
        _ => vec![menu::packet(menu::GARBAGE, 62), menu::packet(7, 63), menu::packet(menu::VERSION_0, 64), menu::packet(menu::VERSION_6, 65)],
    }
}

thread_local! {
    static ALL_ALLOWING: std::cell::RefCell<Option<(NetflowParser, NetflowParser)>> = const { std::cell::RefCell::new(None) };
}

pub fn judge(seq: &[usize], prior: usize, ak: usize, all_set: &std::collections::HashSet<u16>) -> Eval {
    let buf = menu::chain(seq);
    let s = menu::allowed_set(ak);
    let s_set: std::collections::HashSet<u16> = s.iter().cloned().collect();
    // calls: the prior history, the buffer, and the buffer once more (the filter has no memory: what a call reports
    // and learns depends on the caches and the configured set alone)
    let late = prior >= 6;
    let mut calls = if late { vec![] } else { prior_calls(prior) };
    let nprior = calls.len();
    calls.push(buf.clone());
    calls.push(buf.clone());
    // subject: configured once, before anything is parsed
    let mut ps = NetflowParser::default();
    if late {
        for c in prior_calls(prior) {
            ps.parse_bytes(&c);
        }
    }
    ps.allowed_versions = s_set.clone();
    // state reference: an all-allowing parser that is fed, call by call, only the bytes the subject may look at
    // (both all-allowing parsers are kept per thread and only their caches are reset: building a 65 536-member set
    // twice per case dominated the run)
    let (mut pp, mut pall) = ALL_ALLOWING.with(|c| c.borrow_mut().take()).unwrap_or_else(|| {
        let mk = || {
            let mut p = NetflowParser::default();
            p.allowed_versions = all_set.clone();
            p
        };
        (mk(), mk())
    });
    for p in [&mut pp, &mut pall] {
        p.v9_parser.templates.clear();
        p.v9_parser.options_templates.clear();
        p.ipfix_parser.templates.clear();
        p.ipfix_parser.options_templates.clear();
    }
    if late {
        for c in prior_calls(prior) {
            pp.parse_bytes(&c);
        }
    }
    let mut issues = vec![];
    let mut tags = vec![];
    let mut keyacc = vec![];
    for (ci, call) in calls.iter().enumerate() {
        let which = if ci < nprior { "prior-call" } else if ci == nprior { "call" } else { "repeated-call" };
        // reference run: a parser that allows every version, from the state the subject should be in
        let c = caches(&pp);
        pall.v9_parser.templates = c.v9_t.iter().map(|(k, t)| (*k, t.clone())).collect();
        pall.v9_parser.options_templates = c.v9_o.iter().map(|(k, t)| (*k, t.clone())).collect();
        pall.ipfix_parser.templates = c.ipfix_t.clone();
        pall.ipfix_parser.options_templates = c.ipfix_o.clone();
        let rall = pall.parse_bytes(call);
        let rs = ps.parse_bytes(call);
        // expected: maximal prefix of rall whose elements start with a version in S
        let mut o = 0usize;
        let mut keep = 0usize;
        for e in &rall {
            let (v, len) = wire_len(e, call.len() - o);
            if v == 0xffff || !s.contains(&v) {
                // a one-byte tail (Incomplete) has no version: it is reported under every S
                if v == 0xffff {
                    keep += 1;
                    o += len;
                }
                break;
            }
            keep += 1;
            o += len;
        }
        let exp = &rall[..keep];
        if format!("{:?}", exp) != format!("{:?}", rs) {
            let kinds = |r: &[NetflowPacket]| r.iter().map(|e| format!("{:?}", c_pkt(e).version())).collect::<Vec<_>>();
            let sig = if rs.len() > exp.len() { "reports-past-the-first-disallowed-version" } else if rs.len() < exp.len() { "drops-allowed-leading-elements" } else { "element-differs-from-all-allowed-run" };
            issues.push(issue(format!("{}/{}", which, sig), format!("allowed {:?}, {} {}: expected {} leading elements {:?}, got {} {:?}", s, which, ci, exp.len(), kinds(exp), rs.len(), kinds(&rs))));
        }
        // absolute law (the all-allowing run is the same library and shares its defects): the list is a decomposition
        // of the call's bytes that stops silently only in front of a version outside S
        for mut is in super::c02::decomposition_issues(call, &rs, &s) {
            is.sig = format!("{}/decomposition/{}", which, is.sig);
            issues.push(is);
        }
        // caches: as if only the bytes of that prefix had been fed to an all-allowing parser
        pp.parse_bytes(&call[..o.min(call.len())]);
        if snap(&pp) != snap(&ps) {
            issues.push(issue(format!("{}/caches-changed-by-filtered-packets", which), format!("allowed {:?}, {} {}: caches differ from those of an all-allowing parser fed only the first {} bytes", s, which, ci, o)));
            break;
        }
        // the configuration is the caller's: no call changes it
        if ps.allowed_versions != s_set {
            issues.push(issue(format!("{}/allowed-set-changed-by-a-call", which), format!("configured {:?}, after {} {} the parser holds {:?}", s, which, ci, { let mut v: Vec<u16> = ps.allowed_versions.iter().cloned().collect(); v.sort(); v })));
            break;
        }
        // an allowed version outside {5,7,9,10} is an UnknownVersion error carrying the unparsed bytes
        if let Some(NetflowPacket::Error(er)) = rs.last() {
            if er.remaining.len() >= 2 {
                let v = r16(&er.remaining, 0);
                if !matches!(v, 5 | 7 | 9 | 10) && !matches!(er.error, NetflowParseError::UnknownVersion(_)) {
                    issues.push(issue("unknown-version-not-reported-as-such", format!("version {} reported as {:?}", v, c_pkt(rs.last().unwrap()))));
                }
            }
        }
        if ci >= nprior {
            if keep < rall.len() && keep > 0 {
                tags.push("filter-cuts-in-the-middle");
            }
            if matches!(rs.last(), Some(NetflowPacket::Error(er)) if matches!(er.error, NetflowParseError::UnknownVersion(_))) {
                tags.push("unknown-version-error");
            }
        } else if matches!(rs.last(), Some(NetflowPacket::Error(er)) if matches!(er.error, NetflowParseError::UnknownVersion(_))) {
            tags.push("unknown-version-error-in-an-earlier-call");
        }
        keyacc.push(format!("{:?}", rs));
    }
    // the flattening helper is parse_bytes plus conversion: under the same configuration and history it yields the flows
    // of exactly what parse_bytes reports, and leaves the same caches
    {
        let mk = || {
            let mut p = NetflowParser::default();
            if late {
                for c in prior_calls(prior) {
                    p.parse_bytes(&c);
                }
            }
            p.allowed_versions = s_set.clone();
            if !late {
                for c in prior_calls(prior) {
                    p.parse_bytes(&c);
                }
            }
            p
        };
        let (mut p1, mut p2) = (mk(), mk());
        let via_parse: usize = p1.parse_bytes(&buf).iter().filter_map(|e| e.as_netflow_common().ok()).map(|c| c.flowsets.len()).sum();
        let via_helper = p2.parse_bytes_as_netflow_common_flowsets(&buf).len();
        if via_parse != via_helper {
            issues.push(issue("helper/flattening-helper-reports-other-flows-than-parse_bytes", format!("allowed {:?}: parse_bytes_as_netflow_common_flowsets returns {} flows, the conversion of parse_bytes' result {}", s, via_helper, via_parse)));
        }
        if snap(&p1) != snap(&p2) {
            issues.push(issue("helper/flattening-helper-leaves-other-caches-than-parse_bytes", format!("allowed {:?}", s)));
        }
    }
    tags.sort();
    tags.dedup();
    if pp.allowed_versions.len() == 65536 && pall.allowed_versions.len() == 65536 {
        ALL_ALLOWING.with(|c| *c.borrow_mut() = Some((pp, pall)));
    }
    Eval { key: h64(&(keyacc, ak)) | 1, transitions: 3 * calls.len() as u64, issues, tags }
}

pub fn spaces(tier: &str) -> Vec<Box<dyn Space>> {
    let thorough = tier == "thorough";
    let maxlen = if thorough { 4 } else { 3 };
    let nm = MENU.len();
    let nl = list_count(nm, maxlen);
    let all_set: std::sync::Arc<std::collections::HashSet<u16>> = std::sync::Arc::new((0..=65535u16).collect());
    let a2 = all_set.clone();
    let radices = [nl, NPRIOR, menu::NALLOWED];
    let _ = all_allowing;
    let a3 = all_set.clone();
    let latelen = maxlen - 1;
    let nl2 = list_count(nm, latelen);
    let radices2 = [nl2, NLATE, menu::NALLOWED];
    vec![
        space(
            &format!("buffers<={}-packets-over-29-packet-menu x 6 prior histories under the configuration x 64 allowed sets, each call judged, buffer delivered twice", maxlen),
            product(&radices),
            move |i| {
                let d = digits(i, &radices);
                let seq: Vec<usize> = list_at(nm, maxlen, d[0]).into_iter().map(|k| MENU[k]).collect();
                judge(&seq, d[1] as usize, d[2] as usize, &a2)
            },
            move |i| {
                let d = digits(i, &radices);
                let seq: Vec<usize> = list_at(nm, maxlen, d[0]).into_iter().map(|k| MENU[k]).collect();
                json!({"buffer": seq.iter().map(|k| menu::NAMES[*k]).collect::<Vec<_>>(), "buffer_hex": hex(&menu::chain(&seq)), "prior_calls": prior_calls(d[1] as usize).iter().map(|c| hex(c)).collect::<Vec<_>>(), "configuration_set": "before the prior calls", "allowed_versions": menu::allowed_set(d[2] as usize)})
            },
        ),
        space(
            &format!("buffers<={}-packets x 3 prior histories delivered BEFORE the configuration is set (narrowing over non-empty caches) x 64 allowed sets", latelen),
            product(&radices2),
            move |i| {
                let d = digits(i, &radices2);
                let seq: Vec<usize> = list_at(nm, latelen, d[0]).into_iter().map(|k| MENU[k]).collect();
                let mut e = judge(&seq, 6 + d[1] as usize, d[2] as usize, &a3);
                e.tags.push("configuration-narrowed-over-non-empty-caches");
                e
            },
            move |i| {
                let d = digits(i, &radices2);
                let seq: Vec<usize> = list_at(nm, latelen, d[0]).into_iter().map(|k| MENU[k]).collect();
                json!({"buffer": seq.iter().map(|k| menu::NAMES[*k]).collect::<Vec<_>>(), "buffer_hex": hex(&menu::chain(&seq)), "prior_calls": prior_calls(6 + d[1] as usize).iter().map(|c| hex(c)).collect::<Vec<_>>(), "configuration_set": "after the prior calls", "allowed_versions": menu::allowed_set(d[2] as usize)})
            },
        ),
    ]
}

pub fn run(tier: &str) -> i32 {
    let thorough = tier == "thorough";
    let rep = Report {
        prop: "C12".into(),
        tier: tier.into(),
        level: "model_checking",
        rule: "every buffer = sequence of 1..=3 (thorough 4) packets over a 29-packet menu (three one-byte tails, 17 self-delimiting packets, version-6, version-0, V9 truncated inside a template, V9 data for an absent id, five well-formed packets whose version field is 0x0109 / 0x0105 / 0x010a / 0x0107 / 0x0900) x 9 prior histories (six delivered under the configuration, two of them with unparsable versions and garbage; three delivered before the configuration is set, so that the set is narrowed over caches that already hold templates - these with buffers one packet shorter) x all 64 allowed sets (16 subsets of {5,7,9,10} x extras {none,{6},{0,11,65535}, 24 aliasing numbers}), the buffer delivered twice; EVERY call of the history is judged; oracle relative to a parser allowing all 65 536 versions from the same state: result(S) = maximal prefix of result(ALL) whose elements' versions are in S, caches(S) = caches of an ALL-parser fed only that prefix's bytes, unknown allowed versions are UnknownVersion errors, allowed_versions itself is unchanged by every call, and - independently of the all-allowing run - every result is a decomposition of its buffer that ends silently only in front of a version outside S. Distinct by hash of (result, allowed set)".into(),
        bounds: json!({"buffer_len": if thorough {4} else {3}, "prior_histories": 9, "calls_judged_per_case": "2..=6", "allowed_sets": 64}),
        assumptions: vec![],
        trusted_base: vec!["c12::judge".into()],
        required_tags: vec!["filter-cuts-in-the-middle", "unknown-version-error", "unknown-version-error-in-an-earlier-call", "configuration-narrowed-over-non-empty-caches"],
        extra: Default::default(),
    };
    run_report(rep, spaces(tier))
}
