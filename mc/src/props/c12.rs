//! C12 — allowed_versions filters by version and nothing else (E-ENUM: configurations x buffers x states).
use crate::alphabet::{list_at, list_count};
use crate::cform::*;
use crate::engine::*;
use crate::menu;
use crate::util::*;
use netflow_parser::{NetflowPacket, NetflowParseError, NetflowParser};
use serde_json::json;

/// the 15-packet menu of this property: the 12 self-delimiting packets + version-6, version-0, truncated V9
const MENU: [usize; 21] = [0, 1, 2, 3, 4, 5, 6, 7, 8, 9, 10, 11, 12, 13, 14, 15, 16, menu::VERSION_6, menu::VERSION_0, menu::V9_TRUNCATED, menu::V9_D_ABSENT];

fn wire_len(e: &NetflowPacket, rest: usize) -> (u16, usize) {
    match e {
        NetflowPacket::V5(x) => (5, 24 + 48 * x.header.count as usize),
        NetflowPacket::V7(x) => (7, 24 + 52 * x.header.count as usize),
        NetflowPacket::V9(x) => (9, 20 + x.flowsets.iter().map(|s| (s.header.length as usize).max(4)).sum::<usize>()),
        NetflowPacket::IPFix(x) => (10, (x.header.length as usize).max(16)),
        NetflowPacket::Error(er) => (if er.remaining.len() >= 2 { r16(&er.remaining, 0) } else { 0xffff }, rest),
    }
}

fn all_allowing(p: &mut NetflowParser) {
    p.allowed_versions = (0..=65535u16).collect();
}

pub fn judge(seq: &[usize], prior: usize, ak: usize, all_set: &std::collections::HashSet<u16>) -> Eval {
    let buf = menu::chain(seq);
    let s = menu::allowed_set(ak);
    let prime = |p: &mut NetflowParser| {
        for c in menu::prior_state(prior) {
            p.parse_bytes(&c);
        }
    };
    // reference run: a parser that allows every version, from the same state
    let mut pall = NetflowParser::default();
    prime(&mut pall);
    pall.allowed_versions = all_set.clone();
    let rall = pall.parse_bytes(&buf);
    // subject
    let mut ps = NetflowParser::default();
    prime(&mut ps);
    ps.allowed_versions = s.iter().cloned().collect();
    let rs = ps.parse_bytes(&buf);
    // expected: maximal prefix of rall whose elements start with a version in S
    let mut o = 0usize;
    let mut keep = 0usize;
    for e in &rall {
        let (v, len) = wire_len(e, buf.len() - o);
        if v == 0xffff || !s.contains(&v) {
            // a one-byte tail (Incomplete) has no version: it is reported under every S
            if v == 0xffff {
                keep += 1;
                o += len;
            }
            break;
        }
        keep += 1;
        o += len;
    }
    let mut issues = vec![];
    let exp = &rall[..keep];
    if format!("{:?}", exp) != format!("{:?}", rs) {
        let kinds = |r: &[NetflowPacket]| r.iter().map(|e| format!("{:?}", c_pkt(e).version())).collect::<Vec<_>>();
        let sig = if rs.len() > exp.len() { "reports-past-the-first-disallowed-version" } else if rs.len() < exp.len() { "drops-allowed-leading-elements" } else { "element-differs-from-all-allowed-run" };
        issues.push(issue(sig, format!("allowed {:?}: expected {} leading elements {:?}, got {} {:?}", s, exp.len(), kinds(exp), rs.len(), kinds(&rs))));
    }
    // caches: as if only the bytes of that prefix had been fed to an all-allowing parser
    let mut pp = NetflowParser::default();
    prime(&mut pp);
    pp.allowed_versions = all_set.clone();
    pp.parse_bytes(&buf[..o.min(buf.len())]);
    if snap(&pp) != snap(&ps) {
        issues.push(issue("caches-changed-by-filtered-packets", format!("allowed {:?}: caches differ from those of an all-allowing parser fed only the first {} bytes", s, o)));
    }
    // an allowed version outside {5,7,9,10} is an UnknownVersion error carrying the unparsed bytes
    if let Some(NetflowPacket::Error(er)) = rs.last() {
        if er.remaining.len() >= 2 {
            let v = r16(&er.remaining, 0);
            if !matches!(v, 5 | 7 | 9 | 10) && !matches!(er.error, NetflowParseError::UnknownVersion(_)) {
                issues.push(issue("unknown-version-not-reported-as-such", format!("version {} reported as {:?}", v, c_pkt(rs.last().unwrap()))));
            }
        }
    }
    let mut tags = vec![];
    if keep < rall.len() && keep > 0 {
        tags.push("filter-cuts-in-the-middle");
    }
    if matches!(rs.last(), Some(NetflowPacket::Error(er)) if matches!(er.error, NetflowParseError::UnknownVersion(_))) {
        tags.push("unknown-version-error");
    }
    Eval { key: h64(&(format!("{:?}", rs), ak)) | 1, transitions: 3, issues, tags }
}

pub fn spaces(tier: &str) -> Vec<Box<dyn Space>> {
    let thorough = tier == "thorough";
    let maxlen = if thorough { 4 } else { 3 };
    let nm = MENU.len();
    let nl = list_count(nm, maxlen);
    let all_set: std::sync::Arc<std::collections::HashSet<u16>> = std::sync::Arc::new((0..=65535u16).collect());
    let a2 = all_set.clone();
    let radices = [nl, 4, menu::NALLOWED];
    let _ = all_allowing;
    vec![space(
        &format!("buffers<={}-packets-over-21-packet-menu x 4 prior states x 64 allowed sets", maxlen),
        product(&radices),
        move |i| {
            let d = digits(i, &radices);
            let seq: Vec<usize> = list_at(nm, maxlen, d[0]).into_iter().map(|k| MENU[k]).collect();
            judge(&seq, d[1] as usize, d[2] as usize, &a2)
        },
        move |i| {
            let d = digits(i, &radices);
            let seq: Vec<usize> = list_at(nm, maxlen, d[0]).into_iter().map(|k| MENU[k]).collect();
            json!({"buffer": seq.iter().map(|k| menu::NAMES[*k]).collect::<Vec<_>>(), "buffer_hex": hex(&menu::chain(&seq)), "prior_calls": menu::prior_state(d[1] as usize).iter().map(|c| hex(c)).collect::<Vec<_>>(), "allowed_versions": menu::allowed_set(d[2] as usize)})
        },
    )]
}

pub fn run(tier: &str) -> i32 {
    let thorough = tier == "thorough";
    let rep = Report {
        prop: "C12".into(),
        tier: tier.into(),
        level: "model_checking",
        rule: "every buffer = sequence of 1..=3 (thorough 4) packets over a 21-packet menu (17 self-delimiting packets, version-6, version-0, V9 truncated inside a template, V9 data for an absent id) x 4 prior cache states x all 64 allowed sets (16 subsets of {5,7,9,10} x extras {none,{6},{0,11,65535}}); oracle relative to a parser allowing all 65 536 versions from the same state: result(S) = maximal prefix of result(ALL) whose elements' versions are in S, caches(S) = caches of an ALL-parser fed only that prefix's bytes, unknown allowed versions are UnknownVersion errors. Distinct by hash of (result, allowed set)".into(),
        bounds: json!({"buffer_len": if thorough {4} else {3}, "prior_states": 4, "allowed_sets": 64}),
        assumptions: vec![],
        trusted_base: vec!["c12::judge".into()],
        required_tags: vec!["filter-cuts-in-the-middle", "unknown-version-error"],
        extra: Default::default(),
    };
    run_report(rep, spaces(tier))
}
