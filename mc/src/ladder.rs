//! Scale ladder Λ (family C): every structural repetition the formats allow, materialised at
//! n ∈ {1..16, 24, 32, 48, 64, … x1.5 …, max-1, max} where max is what fits a 65 535-byte datagram.
use crate::families::Case;
use crate::util::*;
use crate::wire::*;
use std::sync::Arc;

pub struct Rung {
    pub name: String,
    pub max: usize,
    pub build: Box<dyn Fn(usize) -> Case + Sync + Send>,
}

pub fn sizes(max: usize, limit: Option<usize>) -> Vec<usize> {
    let mut v: Vec<usize> = (1..=16).collect();
    let mut x = 24usize;
    let mut alt = true;
    while x < max {
        v.push(x);
        x = if alt { x / 3 * 4 } else { x / 2 * 3 };
        alt = !alt;
    }
    if max > 1 {
        v.push(max - 1);
    }
    v.push(max);
    v.retain(|n| *n >= 1 && *n <= max);
    v.sort();
    v.dedup();
    if let Some(l) = limit {
        // keep the smallest few, an even spread, and the two largest
        if v.len() > l {
            let keep_top = 2;
            let body = l - keep_top;
            let mut w: Vec<usize> = (0..body).map(|k| v[k * (v.len() - keep_top) / body]).collect();
            w.extend_from_slice(&v[v.len() - keep_top..]);
            w.dedup();
            v = w;
        }
    }
    v
}

fn v9_tpl_packet(id: u16, fields: &[FieldSpec]) -> Vec<u8> {
    v9_packet(&V9Pkt::new(vec![V9Set::Tpl(vec![V9Tpl { id, fields: fields.to_vec() }], 0)]))
}
fn ipfix_tpl_msg(id: u16, fields: &[FieldSpec]) -> Vec<u8> {
    ipfix_message(&IpfixMsg::new(vec![IpfixSet::Tpl(vec![IpfixTpl { id, fields: fields.to_vec() }], 0)]))
}
fn distinct(n: usize, salt: usize) -> Vec<u8> {
    (0..n).map(|j| fill(salt + j / 251, j)).collect()
}
fn rung(name: &str, max: usize, f: impl Fn(usize) -> Case + Sync + Send + 'static) -> Rung {
    Rung { name: name.to_string(), max, build: Box::new(f) }
}

pub fn rungs() -> Vec<Rung> {
    let mut v = vec![];
    // ---- records per data set
    for (w, fields) in [(1usize, vec![fs(5, 1)]), (4, vec![fs(1, 4)]), (40, (0..10).map(|k| fs(1 + k, 4)).collect::<Vec<_>>())] {
        let f2 = fields.clone();
        v.push(rung(&format!("ipfix-records-of-{}-bytes", w), (65535 - 20) / w, move |n| Case { prior: vec![ipfix_tpl_msg(256, &f2)], input: ipfix_message(&IpfixMsg::new(vec![IpfixSet::Data(256, distinct(n * w, 3))])) }));
        let f3 = fields.clone();
        v.push(rung(&format!("v9-records-of-{}-bytes", w), (65535 - 24) / w, move |n| Case { prior: vec![v9_tpl_packet(256, &f3)], input: v9_packet(&V9Pkt::new(vec![V9Set::Data(256, distinct(n * w, 5))])) }));
    }
    // ipfix records of a variable-length field holding one byte each (2 bytes per record)
    v.push(rung("ipfix-varlen-records-of-2-bytes", (65535 - 20) / 2, |n| Case {
        prior: vec![ipfix_tpl_msg(256, &[fs(82, 65535)])],
        input: ipfix_message(&IpfixMsg::new(vec![IpfixSet::Data(256, (0..n).flat_map(|j| [1u8, b'a' + (j % 26) as u8]).collect())])),
    }));
    // ---- sets per message / flowsets per packet
    v.push(rung("ipfix-template-sets-of-12-bytes", (65535 - 16) / 12, |n| Case { prior: vec![], input: ipfix_message(&IpfixMsg::new((0..n).map(|k| IpfixSet::Tpl(vec![IpfixTpl { id: 256 + (k % 4000) as u16, fields: vec![fs(1, 4)] }], 0)).collect())) }));
    v.push(rung("ipfix-data-sets-of-5-bytes", (65535 - 16) / 5, |n| Case { prior: vec![ipfix_tpl_msg(256, &[fs(4, 1)])], input: ipfix_message(&IpfixMsg::new((0..n).map(|k| IpfixSet::Data(256, vec![fill(k, 0)])).collect())) }));
    v.push(rung("v9-template-flowsets-of-12-bytes", (65535 - 20) / 12, |n| Case { prior: vec![], input: v9_packet(&V9Pkt::new((0..n).map(|k| V9Set::Tpl(vec![V9Tpl { id: 256 + (k % 4000) as u16, fields: vec![fs(1, 4)] }], 0)).collect())) }));
    v.push(rung("v9-data-flowsets-of-8-bytes", (65535 - 20) / 8, |n| Case { prior: vec![v9_tpl_packet(256, &[fs(1, 4)])], input: v9_packet(&V9Pkt::new((0..n).map(|k| V9Set::Data(256, distinct(4, k))).collect())) }));
    v.push(rung("v9-empty-flowsets-of-4-bytes", (65535 - 20) / 4, |n| Case { prior: vec![v9_tpl_packet(256, &[fs(1, 4)])], input: v9_packet(&V9Pkt::new((0..n).map(|_| V9Set::Data(256, vec![])).collect())) }));
    // ---- template records per set
    v.push(rung("v9-template-records-per-flowset", (65535 - 24) / 8, |n| Case { prior: vec![], input: v9_packet(&V9Pkt::new(vec![V9Set::Tpl((0..n).map(|k| V9Tpl { id: 256 + (k % 60000) as u16, fields: vec![fs(1, 4)] }).collect(), 0)])) }));
    v.push(rung("v9-fieldless-template-records-per-flowset", (65535 - 24) / 4, |n| Case { prior: vec![], input: v9_packet(&V9Pkt::new(vec![V9Set::Tpl((0..n).map(|k| V9Tpl { id: 256 + (k % 60000) as u16, fields: vec![] }).collect(), 0)])) }));
    v.push(rung("v9-options-template-records-per-flowset", (65535 - 24) / 10, |n| Case { prior: vec![], input: v9_packet(&V9Pkt::new(vec![V9Set::OptTpl((0..n).map(|k| V9OptTpl { id: 256 + (k % 60000) as u16, scope: vec![fs(1, 4)], opts: vec![] }).collect(), 0)])) }));
    v.push(rung("ipfix-template-records-per-set", (65535 - 20) / 8, |n| Case { prior: vec![], input: ipfix_message(&IpfixMsg::new(vec![IpfixSet::Tpl((0..n).map(|k| IpfixTpl { id: 256 + (k % 60000) as u16, fields: vec![fs(1, 4)] }).collect(), 0)])) }));
    // ---- fields per template (template, then one data packet of 64 bytes decoded with it)
    v.push(rung("v9-fields-per-template", (65535 - 28) / 4, |n| Case {
        prior: vec![v9_tpl_packet(256, &(0..n).map(|k| fs(1 + (k % 3) as u16, 1)).collect::<Vec<_>>())],
        input: v9_packet(&V9Pkt::new(vec![V9Set::Data(256, distinct(n.max(64), 1))])),
    }));
    v.push(rung("ipfix-fields-per-template", (65535 - 24) / 4, |n| Case {
        prior: vec![ipfix_tpl_msg(256, &(0..n).map(|k| fs(1 + (k % 3) as u16, 1)).collect::<Vec<_>>())],
        input: ipfix_message(&IpfixMsg::new(vec![IpfixSet::Data(256, distinct(n.max(64), 1))])),
    }));
    v.push(rung("v9-fields-per-template-in-one-call", (65535 - 28 - 80) / 4, |n| {
        let mut b = v9_tpl_packet(256, &(0..n).map(|k| fs(1 + (k % 3) as u16, 1)).collect::<Vec<_>>());
        b.extend(v9_packet(&V9Pkt::new(vec![V9Set::Data(256, distinct(60, 1))])));
        Case { prior: vec![], input: b }
    }));
    // ---- packets per buffer
    v.push(rung("ipfix-header-only-messages-per-buffer", 65535 / 16, |n| Case { prior: vec![], input: (0..n).flat_map(|_| ipfix_message(&IpfixMsg::new(vec![]))).collect() }));
    v.push(rung("v5-count-0-packets-per-buffer", 65535 / 24, |n| Case { prior: vec![], input: (0..n).flat_map(|k| fixed_distinct(5, 0, k)).collect() }));
    v.push(rung("v7-count-0-packets-per-buffer", 65535 / 24, |n| Case { prior: vec![], input: (0..n).flat_map(|k| fixed_distinct(7, 0, k)).collect() }));
    v.push(rung("v9-count-0-packets-per-buffer", 65535 / 20, |n| Case { prior: vec![], input: (0..n).flat_map(|_| v9_packet(&V9Pkt::new(vec![]))).collect() }));
    v.push(rung("v5-one-record-packets-per-buffer", 65535 / 72, |n| Case { prior: vec![], input: (0..n).flat_map(|k| fixed_distinct(5, 1, k)).collect() }));
    v.push(rung("mixed-chain-packets-per-buffer", 65535 / 45, |n| Case {
        prior: vec![],
        input: (0..n)
            .flat_map(|k| match k % 5 {
                0 => fixed_distinct(5, 0, k),
                1 => ipfix_tpl_msg(256, &[fs(1, 4)]),
                2 => fixed_distinct(7, 1, k),
                3 => ipfix_message(&IpfixMsg::new(vec![IpfixSet::Data(256, distinct(8, k))])),
                _ => v9_tpl_packet(300, &[fs(1, 4)]),
            })
            .collect(),
    }));
    // ---- V5/V7 records per packet
    v.push(rung("v5-records-per-packet", (65535 - 24) / 48, |n| Case { prior: vec![], input: fixed_distinct(5, n, 0) }));
    v.push(rung("v7-records-per-packet", (65535 - 24) / 52, |n| Case { prior: vec![], input: fixed_distinct(7, n, 0) }));
    // ---- variable-length field lengths
    v.push(rung("ipfix-varlen-field-length", 65535 - 24, |n| Case { prior: vec![ipfix_tpl_msg(256, &[fs(82, 65535)])], input: ipfix_message(&IpfixMsg::new(vec![IpfixSet::Data(256, ipfix_field_bytes(&fs(82, 65535), &distinct(n, 2), false))])) }));
    // ---- zero-length-field templates: nf zero-width fields + one 1-byte field; data of 1024 one-byte records
    v.push(rung("v9-zero-width-fields-x-1024-records", 2048, |nf| {
        let mut f: Vec<FieldSpec> = (0..nf).map(|_| fs(94, 0)).collect();
        f.push(fs(5, 1));
        Case { prior: vec![v9_tpl_packet(256, &f)], input: v9_packet(&V9Pkt::new(vec![V9Set::Data(256, distinct(1024, 1))])) }
    }));
    v.push(rung("ipfix-zero-width-fields-x-1024-records", 2048, |nf| {
        let mut f: Vec<FieldSpec> = (0..nf).map(|_| fs(82, 0)).collect();
        f.push(fs(4, 1));
        Case { prior: vec![ipfix_tpl_msg(256, &f)], input: ipfix_message(&IpfixMsg::new(vec![IpfixSet::Data(256, distinct(1024, 1))])) }
    }));
    v.push(rung("v9-64-zero-width-fields-x-n-records", 65535 - 24, |nd| {
        let mut f: Vec<FieldSpec> = (0..64).map(|_| fs(94, 0)).collect();
        f.push(fs(5, 1));
        Case { prior: vec![v9_tpl_packet(256, &f)], input: v9_packet(&V9Pkt::new(vec![V9Set::Data(256, distinct(nd, 1))])) }
    }));
    // ---- n record-less data flowsets / sets (4 bytes each) under a WIDE cached template (1 000 fields): what a call
    // returns may not carry a per-flowset cost proportional to the template
    for (kind, name) in [(0usize, "v9-n-empty-data-flowsets-under-a-1000-field-template"), (1, "v9-n-empty-options-data-flowsets-under-a-1000-field-options-template"), (2, "ipfix-n-empty-data-sets-under-a-1000-field-template"), (3, "ipfix-n-empty-options-data-sets-under-a-1000-field-options-template")] {
        v.push(rung(name, (65535 - 24) / 4, move |n| {
            let f: Vec<FieldSpec> = (0..1000).map(|k| fs(1 + (k % 3) as u16, 4)).collect();
            let prior = match kind {
                0 => v9_tpl_packet(256, &f),
                1 => v9_packet(&V9Pkt::new(vec![V9Set::OptTpl(vec![V9OptTpl { id: 256, scope: (0..500).map(|_| fs(1, 4)).collect(), opts: f[..500].to_vec() }], 0)])),
                2 => ipfix_tpl_msg(256, &f),
                _ => ipfix_message(&IpfixMsg::new(vec![IpfixSet::OptTpl(vec![IpfixOptTpl { id: 256, scope_count: 1, fields: f.clone() }], 0)])),
            };
            let input = if kind < 2 { v9_packet(&V9Pkt::new((0..n).map(|_| V9Set::Data(256, vec![])).collect())) } else { ipfix_message(&IpfixMsg::new((0..n).map(|_| IpfixSet::Data(256, vec![])).collect())) };
            Case { prior: vec![prior], input }
        }));
    }
    // ---- a cached template declaring one field of n bytes; 200 packets whose data set / flowset holds ONE byte: the
    // declared length may not cause allocation or work for bytes that are not there
    for (pn, ty, what) in [("ipfix", 82u16, "string"), ("ipfix", 600, "unknown-type"), ("v9", 96, "string"), ("v9", 95, "byte-vector")] {
        let ipfix = pn == "ipfix";
        v.push(rung(&format!("{}-declared-{}-length-n-over-1-byte-body-x-200-packets", pn, what), 65534, move |n| {
            let f = vec![fs(ty, n as u16)];
            let (prior, one) = if ipfix {
                (ipfix_tpl_msg(256, &f), ipfix_message(&IpfixMsg::new(vec![IpfixSet::Data(256, vec![0x41])])))
            } else {
                (v9_tpl_packet(256, &f), v9_packet(&V9Pkt::new(vec![V9Set::Data(256, vec![0x41])])))
            };
            Case { prior: vec![prior], input: (0..200).flat_map(|_| one.clone()).collect() }
        }));
    }
    // variable-length element whose PREFIX announces n bytes over an empty rest
    v.push(rung("ipfix-varlen-prefix-announcing-n-bytes-over-nothing-x-200-messages", 65535, |n| {
        let one = ipfix_message(&IpfixMsg::new(vec![IpfixSet::Data(256, vec![0xff, (n >> 8) as u8, n as u8])]));
        Case { prior: vec![ipfix_tpl_msg(256, &[fs(82, 65535)])], input: (0..200).flat_map(|_| one.clone()).collect() }
    }));
    // ---- under-declared fixed-width fields: nf IPv4 fields declared with length 0 (the decoder reads 4 bytes each
    // whatever the template says) + one 1-byte field: the declared record length (1) is far below the consumed one
    for ipfix in [false, true] {
        let pn = if ipfix { "ipfix" } else { "v9" };
        let tpl = move |nf: usize| -> Vec<u8> {
            let mut f: Vec<FieldSpec> = (0..nf).map(|_| fs(8, 0)).collect();
            f.push(fs(if ipfix { 4 } else { 5 }, 1));
            if ipfix { ipfix_tpl_msg(256, &f) } else { v9_tpl_packet(256, &f) }
        };
        let data = move |n: usize| -> Vec<u8> {
            if ipfix { ipfix_message(&IpfixMsg::new(vec![IpfixSet::Data(256, distinct(n, 1))])) } else { v9_packet(&V9Pkt::new(vec![V9Set::Data(256, distinct(n, 1))])) }
        };
        v.push(rung(&format!("{}-nf-under-declared-ipv4-fields-x-60000-data-bytes", pn), 2048, move |nf| Case { prior: vec![tpl(nf)], input: data(60000) }));
        v.push(rung(&format!("{}-64-under-declared-ipv4-fields-x-n-data-bytes", pn), 65535 - 24, move |n| Case { prior: vec![tpl(64)], input: data(n) }));
    }
    // ---- announced counts over short bodies (n = announced count; the body holds 2 units)
    v.push(rung("v5-announced-count-over-2-records", 65535, |n| {
        let mut b = fixed_distinct(5, 2, 0);
        b[2..4].copy_from_slice(&(n as u16).to_be_bytes());
        Case { prior: vec![], input: b }
    }));
    v.push(rung("v7-announced-count-over-2-records", 65535, |n| {
        let mut b = fixed_distinct(7, 2, 0);
        b[2..4].copy_from_slice(&(n as u16).to_be_bytes());
        Case { prior: vec![], input: b }
    }));
    for ver in [5u16, 7] {
        v.push(rung(&format!("v{}-announced-count-over-a-bare-header", ver), 65535, move |n| {
            let mut b = fixed_distinct(ver, 0, 0);
            b[2..4].copy_from_slice(&(n as u16).to_be_bytes());
            Case { prior: vec![], input: b }
        }));
    }
    v.push(rung("v9-announced-header-count-over-2-flowsets", 65535, |n| {
        let mut p = V9Pkt::new(vec![V9Set::Tpl(vec![V9Tpl { id: 256, fields: vec![fs(1, 4)] }], 0), V9Set::Data(256, distinct(8, 0))]);
        p.count = Some(n as u16);
        Case { prior: vec![], input: v9_packet(&p) }
    }));
    v.push(rung("v9-announced-field-count-over-2-fields", 65535, |n| {
        let mut b = v9_tpl_packet(256, &[fs(1, 4), fs(2, 4)]);
        b[26..28].copy_from_slice(&(n as u16).to_be_bytes());
        Case { prior: vec![], input: b }
    }));
    v.push(rung("v9-announced-option-lengths-over-2-fields", 65535, |n| {
        let mut b = v9_packet(&V9Pkt::new(vec![V9Set::OptTpl(vec![V9OptTpl { id: 256, scope: vec![fs(1, 4)], opts: vec![fs(2, 4)] }], 0)]));
        b[26..28].copy_from_slice(&(n as u16).to_be_bytes());
        b[28..30].copy_from_slice(&(n as u16).to_be_bytes());
        Case { prior: vec![], input: b }
    }));
    v.push(rung("ipfix-announced-template-field-count-over-2-fields", 65535, |n| {
        let mut b = ipfix_tpl_msg(256, &[fs(1, 4), fs(2, 4)]);
        b[22..24].copy_from_slice(&(n as u16).to_be_bytes());
        Case { prior: vec![], input: b }
    }));
    // n minimal template sets (12 bytes) / template flowsets each announcing 65 535 fields and holding one
    v.push(rung("ipfix-n-template-sets-announcing-65535-fields-over-1", (65535 - 16) / 12, |n| {
        let mut b = ipfix_message(&IpfixMsg::new((0..n).map(|k| IpfixSet::Tpl(vec![IpfixTpl { id: 256 + (k % 4000) as u16, fields: vec![fs(1, 4)] }], 0)).collect()));
        for k in 0..n {
            b[16 + 12 * k + 6..16 + 12 * k + 8].copy_from_slice(&65535u16.to_be_bytes());
        }
        Case { prior: vec![], input: b }
    }));
    v.push(rung("v9-n-template-flowsets-announcing-65535-fields-over-1", (65535 - 20) / 12, |n| {
        let mut b = v9_packet(&V9Pkt::new((0..n).map(|k| V9Set::Tpl(vec![V9Tpl { id: 256 + (k % 4000) as u16, fields: vec![fs(1, 4)] }], 0)).collect()));
        for k in 0..n {
            b[20 + 12 * k + 6..20 + 12 * k + 8].copy_from_slice(&65535u16.to_be_bytes());
        }
        Case { prior: vec![], input: b }
    }));
    v.push(rung("ipfix-announced-option-field-count-over-2-fields", 65535, |n| {
        let mut b = ipfix_message(&IpfixMsg::new(vec![IpfixSet::OptTpl(vec![IpfixOptTpl { id: 256, scope_count: 1, fields: vec![fs(149, 4), fs(41, 2)] }], 0)]));
        b[22..24].copy_from_slice(&(n as u16).to_be_bytes());
        b[24..26].copy_from_slice(&((n / 2) as u16).to_be_bytes());
        Case { prior: vec![], input: b }
    }));
    // ---- V9 retry loop: a template whose last field cannot be decoded (width 5), nf fields before it, 60 000 data bytes
    v.push(rung("v9-failing-record-retry-loop-nf-fields", 8000, |nf| {
        let mut f: Vec<FieldSpec> = (0..nf).map(|_| fs(5, 1)).collect();
        f.push(fs(1, 5));
        Case { prior: vec![v9_tpl_packet(256, &f)], input: v9_packet(&V9Pkt::new(vec![V9Set::Data(256, distinct(60000, 1))])) }
    }));
    // ---- cache states: n definitions already cached (ids 256..256+n, delivered in packets of 4096 definitions), then
    // one fixed buffer: a maximal set of definitions of the OTHER kind for ids the cache does not hold, a maximal set
    // of the same kind, or a maximal data set - the cost of a call may not depend on how much the parser remembers
    let prior9 = |n: usize, opt: bool| -> Vec<Vec<u8>> {
        (0..n)
            .collect::<Vec<_>>()
            .chunks(4096)
            .map(|c| {
                if opt {
                    v9_packet(&V9Pkt::new(vec![V9Set::OptTpl(c.iter().map(|k| V9OptTpl { id: 256 + *k as u16, scope: vec![fs(1, 4)], opts: vec![] }).collect(), 0)]))
                } else {
                    v9_packet(&V9Pkt::new(vec![V9Set::Tpl(c.iter().map(|k| V9Tpl { id: 256 + *k as u16, fields: vec![fs(1, 4)] }).collect(), 0)]))
                }
            })
            .collect()
    };
    let prior10 = |n: usize, opt: bool| -> Vec<Vec<u8>> {
        (0..n)
            .collect::<Vec<_>>()
            .chunks(4096)
            .map(|c| {
                if opt {
                    ipfix_message(&IpfixMsg::new(vec![IpfixSet::OptTpl(c.iter().map(|k| IpfixOptTpl { id: 256 + *k as u16, scope_count: 1, fields: vec![fs(149, 4)] }).collect(), 0)]))
                } else {
                    ipfix_message(&IpfixMsg::new(vec![IpfixSet::Tpl(c.iter().map(|k| IpfixTpl { id: 256 + *k as u16, fields: vec![fs(1, 4)] }).collect(), 0)]))
                }
            })
            .collect()
    };
    const NEW: usize = 6000; // definitions in the arriving set, ids 40000..46000
    const CACHED_MAX: usize = 32768;
    for opt_cached in [false, true] {
        for opt_new in [false, true] {
            let kind = |o: bool| if o { "options-templates" } else { "templates" };
            v.push(rung(&format!("v9-n-cached-{}-then-{}-{}", kind(opt_cached), NEW, kind(opt_new)), CACHED_MAX, move |n| Case {
                prior: prior9(n, opt_cached),
                input: if opt_new {
                    v9_packet(&V9Pkt::new(vec![V9Set::OptTpl((0..NEW).map(|k| V9OptTpl { id: 40000 + k as u16, scope: vec![fs(1, 4)], opts: vec![] }).collect(), 0)]))
                } else {
                    v9_packet(&V9Pkt::new(vec![V9Set::Tpl((0..NEW).map(|k| V9Tpl { id: 40000 + k as u16, fields: vec![fs(1, 4)] }).collect(), 0)]))
                },
            }));
            v.push(rung(&format!("ipfix-n-cached-{}-then-{}-{}", kind(opt_cached), NEW, kind(opt_new)), CACHED_MAX, move |n| Case {
                prior: prior10(n, opt_cached),
                input: if opt_new {
                    ipfix_message(&IpfixMsg::new(vec![IpfixSet::OptTpl((0..NEW).map(|k| IpfixOptTpl { id: 40000 + k as u16, scope_count: 1, fields: vec![fs(149, 4)] }).collect(), 0)]))
                } else {
                    ipfix_message(&IpfixMsg::new(vec![IpfixSet::Tpl((0..NEW).map(|k| IpfixTpl { id: 40000 + k as u16, fields: vec![fs(1, 4)] }).collect(), 0)]))
                },
            }));
        }
        let kind = if opt_cached { "options-templates" } else { "templates" };
        // data: 15 000 records of 4 bytes (V9 options data: scope only) under the first cached definition
        v.push(rung(&format!("v9-n-cached-{}-then-60000-data-bytes", kind), CACHED_MAX, move |n| Case { prior: prior9(n, opt_cached), input: v9_packet(&V9Pkt::new(vec![V9Set::Data(256, distinct(60000, 9))])) }));
        v.push(rung(&format!("ipfix-n-cached-{}-then-60000-data-bytes", kind), CACHED_MAX, move |n| Case { prior: prior10(n, opt_cached), input: ipfix_message(&IpfixMsg::new(vec![IpfixSet::Data(256, distinct(60000, 9))])) }));
    }
    // n cached definitions, then a buffer packed with 256 minimal packets: a per-packet cost that depends on how much
    // the parser remembers (cloning or scanning the caches per packet) multiplies with the number of packets
    for opt_cached in [false, true] {
        let kind = if opt_cached { "options-templates" } else { "templates" };
        v.push(rung(&format!("ipfix-n-cached-{}-then-256-header-only-messages", kind), CACHED_MAX, move |n| Case { prior: prior10(n, opt_cached), input: (0..256).flat_map(|_| ipfix_message(&IpfixMsg::new(vec![]))).collect() }));
        v.push(rung(&format!("v9-n-cached-{}-then-205-count-0-packets", kind), CACHED_MAX, move |n| Case { prior: prior9(n, opt_cached), input: (0..205).flat_map(|_| v9_packet(&V9Pkt::new(vec![]))).collect() }));
    }
    v.push(rung("v9-and-ipfix-n-cached-templates-then-90-v5-packets", CACHED_MAX, move |n| Case { prior: prior9(n, false).into_iter().chain(prior10(n, false)).collect(), input: (0..90).flat_map(|k| fixed_distinct(5, 1, k)).collect() }));
    v.push(rung("v9-failing-record-retry-loop-data-length", 65535 - 24, |nd| Case { prior: vec![v9_tpl_packet(256, &[fs(5, 1), fs(1, 5)])], input: v9_packet(&V9Pkt::new(vec![V9Set::Data(256, distinct(nd, 1))])) }));
    v
}

/// flatten to an index-addressable family: (rung, size)
pub fn ladder_family(limit: Option<usize>, depth_only: bool) -> (Arc<dyn crate::families::Family>, Vec<(String, usize)>) {
    // depth_only: leave out the rungs whose only point is allocation volume (C15's subject; minutes in a dev build)
    let rungs = Arc::new(rungs().into_iter().filter(|r| !(depth_only && r.name.contains("zero-width"))).collect::<Vec<_>>());
    let mut index: Vec<(usize, usize)> = vec![];
    for (ri, r) in rungs.iter().enumerate() {
        for n in sizes(r.max, limit) {
            index.push((ri, n));
        }
    }
    let labels: Vec<(String, usize)> = index.iter().map(|(ri, n)| (rungs[*ri].name.clone(), *n)).collect();
    let r2 = rungs.clone();
    let idx2 = index.clone();
    let fam = crate::families::family(&format!("C-scale-ladder({} rungs, {} points)", rungs.len(), index.len()), index.len() as u64, move |i| {
        let (ri, n) = idx2[i as usize];
        (r2[ri].build)(n)
    });
    (fam, labels)
}
