//! C02 — results account for every input byte: packets first, at most one final error (E-ENUM on C01's spaces).
use crate::cform::new_parser;
use crate::engine::*;
use crate::families::*;
use crate::menu;
use crate::util::*;
use netflow_parser::NetflowPacket;
use serde_json::json;
use std::panic::{catch_unwind, AssertUnwindSafe};
use std::sync::Arc;

/// wire length implied by the packet's own header fields
fn wire_len(p: &NetflowPacket) -> Option<(u16, usize)> {
    match p {
        NetflowPacket::V5(x) => Some((5, 24 + 48 * x.header.count as usize)),
        NetflowPacket::V7(x) => Some((7, 24 + 52 * x.header.count as usize)),
        NetflowPacket::V9(x) => Some((9, 20 + x.flowsets.iter().map(|s| (s.header.length as usize).max(4)).sum::<usize>())),
        NetflowPacket::IPFix(x) => Some((10, (x.header.length as usize).max(16))),
        NetflowPacket::Error(_) => None,
    }
}

pub fn decomposition_issues(x: &[u8], res: &[NetflowPacket], allowed: &[u16]) -> Vec<Issue> {
    let mut issues = vec![];
    if x.is_empty() {
        if !res.is_empty() {
            issues.push(issue("empty-input-nonempty-result", format!("{} elements for an empty buffer", res.len())));
        }
        return issues;
    }
    let mut p = 0usize;
    for (k, e) in res.iter().enumerate() {
        match e {
            NetflowPacket::Error(er) => {
                if k + 1 != res.len() {
                    issues.push(issue("error-not-last", format!("error element at position {} of {}", k, res.len())));
                }
                if er.remaining != x[p.min(x.len())..] {
                    issues.push(issue("error-remaining", format!("error.remaining has {} bytes, the unconsumed suffix at offset {} has {} bytes (or they differ)", er.remaining.len(), p, x.len() - p.min(x.len()))));
                }
                return issues;
            }
            pk => {
                let (v, len) = wire_len(pk).unwrap();
                if p + 2 > x.len() || r16(x, p) != v {
                    issues.push(issue(format!("version-mismatch/v{}", v), format!("element {} is a v{} packet but the bytes at offset {} are not its version", k, v, p)));
                    return issues;
                }
                if !allowed.contains(&v) {
                    issues.push(issue(format!("disallowed-version-reported/v{}", v), format!("element {} has version {} which is not allowed", k, v)));
                }
                // "wire lengths as implied by their own headers": a V9 packet holds at most as many flowsets as its
                // header announces (it stops after `count` flowsets or at the end of the buffer)
                if let NetflowPacket::V9(v9) = pk {
                    if v9.flowsets.len() > v9.header.count as usize {
                        issues.push(issue("v9/more-flowsets-than-the-header-announces", format!("element {} reports {} flowsets, its header announces {}", k, v9.flowsets.len(), v9.header.count)));
                    }
                }
                p += len;
                if p > x.len() {
                    issues.push(issue(format!("overrun/v{}", v), format!("element {} (v{}) claims {} bytes, ending at {} past the buffer end {}", k, v, len, p, x.len())));
                    return issues;
                }
            }
        }
    }
    // list ended without an error
    if p < x.len() {
        if x.len() - p < 2 {
            issues.push(issue("silent-stop/short-tail", format!("{} unconsumed byte(s) at offset {} and no error element", x.len() - p, p)));
        } else if allowed.contains(&r16(x, p)) {
            issues.push(issue("silent-stop/allowed-version", format!("result ends at offset {} of {} but the next version {} is allowed", p, x.len(), r16(x, p))));
        }
    }
    issues
}

pub fn judge(case: &Case, allowed: &[u16]) -> Eval {
    let r = catch_unwind(AssertUnwindSafe(|| {
        let mut p = new_parser(Some(allowed));
        for h in &case.prior {
            p.parse_bytes(h);
        }
        p.parse_bytes(&case.input)
    }));
    match r {
        Err(_) => Eval { key: 0, transitions: 0, issues: vec![], tags: vec!["panicked (C01's subject)"] },
        Ok(res) => {
            let issues = decomposition_issues(&case.input, &res, allowed);
            let shape: Vec<(u16, usize)> = res.iter().map(|e| wire_len(e).unwrap_or((0, 0))).collect();
            let mut tags = vec![];
            if res.len() > 1 {
                tags.push("multi-element");
            }
            if res.last().map(|e| e.is_error()).unwrap_or(false) && res.len() > 1 {
                tags.push("packets-then-error");
            }
            Eval { key: h64(&(shape, case.input.len())) | 1, transitions: 1 + case.prior.len() as u64, issues, tags }
        }
    }
}

fn fam_space(f: Arc<dyn Family>, nallowed: u64) -> Box<dyn Space> {
    let f2 = f.clone();
    let n = f.size();
    space(
        &format!("{} x {} allowed sets", f.name(), nallowed),
        n * nallowed,
        move |i| judge(&f.case(i % n), &menu::allowed_set(pick_allowed(i / n, nallowed))),
        move |i| {
            let mut d = f2.case(i % n).describe();
            d["allowed_versions"] = json!(menu::allowed_set(pick_allowed(i / n, nallowed)));
            d
        },
    )
}
/// with 48: all; with 18: the 16 subsets of {5,7,9,10} + full ∪ {6} + full ∪ {0,11,65535}
fn pick_allowed(k: u64, n: u64) -> usize {
    if n == 48 {
        k as usize // (the 16 aliasing sets of menu::allowed_set are C12's)
    } else if n == 6 {
        [15usize, 0, 4, 8, 16 + 15, 32 + 15][k as usize]
    } else if k < 16 {
        k as usize
    } else if k == 16 {
        16 + 15
    } else {
        32 + 15
    }
}

pub fn spaces(tier: &str) -> Vec<Box<dyn Space>> {
    let thorough = tier == "thorough";
    let na = 48;
    let mut v = vec![];
    let body = if thorough { 40 } else { 16 };
    v.push(fam_space(family_a_v9(body), na));
    v.push(fam_space(family_a_ipfix(body), na));
    v.push(fam_space(family_b1(all_seeds(true, if thorough { 100_000 } else { 200 }), 3), if thorough { 48 } else { 18 }));
    v.push(fam_space(family_b_trunc(all_seeds(true, 100_000), 3), na));
    v.push(fam_space(family_b_struct(), na));
    v.push(fam_space(family_d(), na));
    v.push(fam_space(family_e(false), if thorough { 48 } else { 6 }));
    v.push(fam_space(family_e(true), if thorough { 48 } else { 6 }));
    // chained sequences over the full menu (including erroring packets), n <= 3 (thorough 4), 4 prior states
    let maxlen = if thorough { 4 } else { 3 };
    let nl = crate::alphabet::list_count(menu::TOTAL, maxlen);
    let chains = family(&format!("chains<={}-over-22-packet-menu x 4 prior states", maxlen), nl * 4, move |i| {
        let seq = crate::alphabet::list_at(menu::TOTAL, maxlen, i % nl);
        Case { prior: menu::prior_state((i / nl) as usize), input: menu::chain(&seq) }
    });
    v.push(fam_space(chains, 48));
    // V5/V7 packets of every record count, alone / followed by another packet / followed by one stray byte
    let top5 = if thorough { 1364 } else { 80 };
    let counts = family(&format!("fixed-format packets with 0..={} records x {{alone, +V7x1, +1 stray byte}}", top5), (top5 as u64 + 1) * 2 * 3, move |i| {
        let d = digits(i, &[top5 as u64 + 1, 2, 3]);
        let ver = if d[1] == 0 { 5 } else { 7 };
        let n = (d[0] as usize).min(if ver == 5 { 1364 } else { 1259 });
        let mut b = crate::wire::fixed_distinct(ver, n, 5);
        match d[2] {
            1 => b.extend(crate::wire::fixed_distinct(7, 1, 9)),
            2 => b.push(0x2a),
            _ => {}
        }
        Case { prior: vec![], input: b }
    });
    v.push(fam_space(counts, 18));
    // buffers LONGER than a datagram: V5 / V7 packets with the counts at which count x record size passes 65 535,
    // alone / followed by a V5 packet / cut 20 bytes short, and chains of small packets totalling about 140 KB
    let big = family("buffers beyond a datagram: v5x{1365,1366} v7x{1260,1261,1262} x {alone, +V5x1, cut} and 140 KB chains", 5 * 3 + 4, move |i| {
        let input = if i < 15 {
            let (ver, n) = [(5u16, 1365usize), (5, 1366), (7, 1260), (7, 1261), (7, 1262)][(i / 3) as usize];
            let mut b = crate::wire::fixed_distinct(ver, n, 5);
            match i % 3 {
                1 => b.extend(crate::wire::fixed_distinct(5, 1, 9)),
                2 => {
                    let l = b.len();
                    b.truncate(l - 20);
                }
                _ => {}
            }
            b
        } else {
            let k = [0usize, 7, 2, 100][(i - 15) as usize];
            let mut b = vec![];
            let mut pos = 0;
            while b.len() < 140_000 {
                b.extend(if k == 100 { menu::packet([0, 7, 2, 8, 3, 4, 9, 6][pos % 8], pos) } else { menu::packet(k, pos) });
                pos += 1;
            }
            b
        };
        Case { prior: vec![], input }
    });
    v.push(fam_space(big, 6));
    v
}

pub fn run(tier: &str) -> i32 {
    let thorough = tier == "thorough";
    let rep = Report {
        prop: "C02".into(),
        tier: tier.into(),
        level: "model_checking",
        rule: "every case of families A (grammar product), B (single-byte deviations x 256 values, truncations, structural deviations), D (tiny buffers) and all chains of <= 3 (thorough 4) packets over the 22-packet menu x 4 prior cache states, each under every allowed set of the stated menu; the oracle is computed from the input bytes and the returned list only (cursor walk with the wire length implied by each packet's own header). A case is distinct by (sequence of (version, implied length), input length)".into(),
        bounds: json!({"allowed_sets": if thorough {"all 16 subsets of {5,7,9,10} x {none,{6},{0,11,65535}} = 48"} else {"16 subsets + 2 widened (18); 48 for chains"}, "chain_len": if thorough {4} else {3}}),
        assumptions: vec!["cases on which parse_bytes panics are skipped here (tag) and reported by C01".into()],
        trusted_base: vec!["c02::decomposition_issues".into()],
        required_tags: vec!["multi-element", "packets-then-error"],
        extra: Default::default(),
    };
    run_report(rep, spaces(tier))
}
