import sys
pid=sys.argv[1]
import json
avoid=json.load(open("/tmp/avoid.json")).get(pid,"")
prop=open(f'/tmp/prop_{pid}.txt').read()
print(f"""You are helping to evaluate a verification framework by producing ONE realistic, subtle property-breaking change ("seeded defect") to a Rust library. You work ONLY inside the scratch git worktree /tmp/seed_{pid} (a checkout of the crate `netflow_parser`, a parser/re-serializer for Cisco NetFlow V5, V7, V9 and IPFIX with per-parser template caches). Do NOT read or touch /repo or /verif or any other /tmp/seed_* directory. The sandbox has no network; use `cargo ... --offline` and set CARGO_TARGET_DIR=/tmp/seed_{pid}/target for every cargo command.

The property the library is supposed to satisfy:

{prop}

Your task: make a small source change to the library (under /tmp/seed_{pid}/src) that BREAKS this property, such that
  (a) the crate still compiles and the existing test suite still passes unchanged:  cd /tmp/seed_{pid} && CARGO_TARGET_DIR=/tmp/seed_{pid}/target cargo test --workspace --no-fail-fast --offline   (45 unit tests + doctests; do not edit existing tests or snapshots);
  (b) the breakage needs something SPECIFIC to manifest - a particular multi-step sequence of calls, a particular unusual-but-legal input shape, a boundary value, a particular cache state, or two cooperating code sites that each look fine alone - NOT something ordinary use of the library would expose at once. Prefer the kind of mistake a maintainer could plausibly make in a refactor or "optimisation" (off-by-one in a length computation, a wrong cache lookup/insert policy, a cursor advanced at the wrong moment, a shortcut taken for a common case, state kept where it should not be, a check moved to the wrong side of a side effect ...). Do not just delete a whole feature or make every input fail.
  (c) you provide a demonstration: a new integration test file /tmp/seed_{pid}/tests/demo_{pid.lower()}.rs (it may use the public API `netflow_parser::...`, and the dev-dependencies hex and serde_json) with one or more #[test]s that FAIL with your change and PASS on the unchanged library. Verify both: run it with your change (must fail), then save your change with `git diff -- src > /tmp/seed_"""+pid+"""/change.patch`, revert it with `git apply -R /tmp/seed_"""+pid+"""/change.patch` (keep the demo file), run the demo again (must pass), then re-apply with `git apply /tmp/seed_"""+pid+"""/change.patch`. Do NOT use `git stash` (the stash is shared between all worktrees of the repository and other agents are working in parallel).

A different change has already been produced for this property: avoid """+avoid+""".

Read the source first (src/lib.rs, src/variable_versions/v9.rs, ipfix.rs, data_number.rs, src/static_versions/*.rs, src/netflow_common.rs, src/protocol.rs) to find a good place. Keep the change small (typically 1-15 lines).

When done, write these files:
  /tmp/seed_{pid}/out/patch.diff      = output of `git diff -- src` (only the library change, NOT the demo test)
  /tmp/seed_{pid}/out/demo_{pid.lower()}.rs  = copy of your demonstration test
  /tmp/seed_{pid}/out/notes.md        = what the change is, why it breaks the property, exactly what is needed for it to manifest, and the commands you ran with their observed results (existing tests pass with change; demo fails with change; demo passes without).
Finally remove the build output: rm -rf /tmp/seed_{pid}/target. Reply with a 5-line summary.""")
