//! C10 — re-exporting a decoded IPFIX packet reproduces the bytes it came from (E-ENUM over C05's conformant space
//! and the accepted deviants of families A/B).
use crate::engine::*;
use crate::families::*;
use crate::reexport::{judge_calls, judge_calls_ex};
use serde_json::json;
use std::sync::Arc;

fn fam_space(f: Arc<dyn Family>) -> Box<dyn Space> {
    let f2 = f.clone();
    space(
        &f.name(),
        f.size(),
        move |i| {
            let c = f.case(i);
            let mut calls = c.prior.clone();
            calls.push(c.input);
            match std::panic::catch_unwind(std::panic::AssertUnwindSafe(|| judge_calls(&calls, 10))) {
                Ok(e) => e,
                Err(_) => Eval { key: 0, transitions: 0, issues: vec![], tags: vec!["panicked (C01's subject)"] },
            }
        },
        move |i| f2.case(i).describe(),
    )
}

pub fn spaces(tier: &str) -> Vec<Box<dyn Space>> {
    let thorough = tier == "thorough";
    let mut v: Vec<Box<dyn Space>> = super::c05::streams(tier).into_iter().map(|g| g.into_space(|c| judge_calls_ex(c, 10, true))).collect();
    v.push(fam_space(family_a_ipfix(if thorough { 40 } else { 16 })));
    v.push(fam_space(family_b1(all_seeds(true, if thorough { 100_000 } else { 200 }), if thorough { 5 } else { 3 })));
    v.push(fam_space(family_b_struct()));
    v.push(fam_space(family_e(true)));
    v.push(fam_space(family_a2(true, if thorough { 24 } else { 8 })));
    v
}

pub fn run(tier: &str) -> i32 {
    let rep = Report {
        prop: "C10".into(),
        tier: tier.into(),
        level: "model_checking",
        rule: "every IPFIX packet returned by parse_bytes anywhere in C05's conformant stream spaces and in families A (grammar product with adversarial templates) and B (single-byte deviations x 256 values, structural deviations) is re-exported and compared with the slice it occupied (cursor walk as in C02); differences are attributed per flowset/set (re-exported in isolation) and per field. An outcome is distinct by the hash of (occupied slice, number of issues)".into(),
        bounds: json!({"spaces": "as C05 plus families A and B", "tier": tier}),
        assumptions: vec!["the slice a packet occupied is computed from its own header/set length fields (C02's law)".into()],
        trusted_base: vec!["reexport.rs".into()],
        required_tags: vec!["packet-judged"],
        extra: Default::default(),
    };
    run_report(rep, spaces(tier))
}
