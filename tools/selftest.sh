#!/bin/bash
# Demonstrate detection: apply each property-breaking change of /verif/mutants/*.patch (and /verif/seeded/*/patch.diff)
# to /repo, confirm the repository's own tests still pass (unless --no-tests), run the checks named in the
# patch's "# expect:" line, require a VIOLATION from each, and undo the change straight afterwards.
#   usage: tools/selftest.sh [--no-tests] [pattern]
set -u
cd /verif
NOTESTS=0; PAT=""
for a in "$@"; do case "$a" in --no-tests) NOTESTS=1;; *) PAT="$a";; esac; done
if [ -n "$(git -C /repo status --porcelain --untracked-files=no)" ]; then echo "refusing: /repo has uncommitted changes"; exit 2; fi
pass=0; fail=0
# evidence files describe the UNCHANGED tree: keep them
rm -rf /verif/mc/target/evidence.keep; cp -r /verif/evidence /verif/mc/target/evidence.keep
for p in mutants/*.patch seeded/*/patch.diff; do
  [ -f "$p" ] || continue
  case "$p" in *"$PAT"*) ;; *) continue;; esac
  if [ -f "$p" ] && grep -q '^# expect:' "$p"; then exp=$(grep '^# expect:' "$p" | head -1 | sed 's/^# expect://'); else
     exp=$(python3 -c "import json,sys,os; print(' '.join(json.load(open(os.path.join(os.path.dirname('$p'),'meta.json'))).get('detected_by',[])))" 2>/dev/null); fi
  if ! git -C /repo apply "/verif/$p" 2>/tmp/selftest_apply.err; then echo "APPLY-FAILED $p: $(head -1 /tmp/selftest_apply.err)"; fail=$((fail+1)); git -C /repo checkout -- . ; continue; fi
  tests="skipped"
  if [ $NOTESTS -eq 0 ]; then
    if (cd /repo && cargo test --workspace --no-fail-fast --offline >/tmp/selftest_tests.log 2>&1); then tests="pass"; else tests="FAIL"; fi
  fi
  line="$p tests=$tests"
  for id in $exp; do
    out=$(./check "$id" --tier quick 2>/dev/null); rc=$?
    if [ $rc -eq 1 ] && echo "$out" | grep -q "^VIOLATION property=$id "; then line="$line $id=DETECTED"; else line="$line $id=MISSED(rc=$rc)"; fi
  done
  git -C /repo checkout -- .
  echo "$line"
  case "$line" in *MISSED*|*tests=FAIL*) fail=$((fail+1));; *) pass=$((pass+1));; esac
done
rm -rf /verif/evidence; cp -r /verif/mc/target/evidence.keep /verif/evidence
echo "selftest: $pass ok, $fail not ok"
[ $fail -eq 0 ]
