//! C08 — re-exporting a decoded V5/V7 packet reproduces its bytes, and vice versa (E-ENUM, stateless).
use crate::cform::*;
use crate::engine::*;
use crate::refmodel::{ref_fixed, RefStop};
use crate::util::*;
use crate::wire::*;
use netflow_parser::protocol::ProtocolTypes;
use netflow_parser::static_versions::{v5, v7};
use netflow_parser::{NetflowPacket, NetflowParser};
use serde_json::json;
use std::net::Ipv4Addr;

/// bytes -> parse -> to_be_bytes must equal the slice each packet occupied
pub fn judge_bytes(buf: &[u8]) -> Eval {
    let mut p = NetflowParser::default();
    let res = p.parse_bytes(buf);
    let mut issues = vec![];
    let mut o = 0usize;
    let mut sizes = vec![];
    for (k, pk) in res.iter().enumerate() {
        let (v, out) = match pk {
            NetflowPacket::V5(x) => (5, x.to_be_bytes()),
            NetflowPacket::V7(x) => (7, x.to_be_bytes()),
            _ => break,
        };
        // the slice the packet occupied, by the reference layout
        let total = match ref_fixed(&buf[o..]) {
            Ok((_, n)) => n,
            Err(RefStop::Truncated) => {
                issues.push(issue(format!("v{}/packet-from-short-buffer", v), format!("element {} decoded from a buffer that is too short", k)));
                break;
            }
            Err(_) => break,
        };
        let slice = &buf[o..o + total];
        if out != slice {
            let pos = out.iter().zip(slice.iter()).position(|(a, b)| a != b).unwrap_or(out.len().min(slice.len()));
            let rs = rec_size(v);
            let sig = if out.len() != slice.len() {
                format!("v{}/export-length", v)
            } else if pos < 24 {
                format!("v{}/export-hdr-offset-{}", v, pos)
            } else {
                format!("v{}/export-rec-offset-{}", v, (pos - 24) % rs)
            };
            issues.push(issue(sig, format!("element {}: re-export differs at byte {} (expected {} bytes, got {})", k, pos, slice.len(), out.len())));
        }
        sizes.push(total);
        o += total;
    }
    Eval { key: h64(&(buf.len(), sizes, res.len())) ^ h64(buf), transitions: 1, issues, tags: vec![] }
}

// ---- struct -> bytes -> struct ----------------------------------------------------------------------------

const NF5: usize = 8 + 20;
const NF7: usize = 6 + 21;

fn set5(p: &mut v5::V5, f: usize, rec: usize, x: u64) {
    let h = &mut p.header;
    match f {
        0 => h.sys_up_time = x as u32,
        1 => h.unix_secs = x as u32,
        2 => h.unix_nsecs = x as u32,
        3 => h.flow_sequence = x as u32,
        4 => h.engine_type = x as u8,
        5 => h.engine_id = x as u8,
        6 => h.sampling_interval = x as u16,
        7 => {}
        _ => {
            if p.flowsets.is_empty() {
                return;
            }
            let r = rec % p.flowsets.len();
            let s = &mut p.flowsets[r];
            match f - 8 {
                0 => s.src_addr = Ipv4Addr::from(x as u32),
                1 => s.dst_addr = Ipv4Addr::from(x as u32),
                2 => s.next_hop = Ipv4Addr::from(x as u32),
                3 => s.input = x as u16,
                4 => s.output = x as u16,
                5 => s.d_pkts = x as u32,
                6 => s.d_octets = x as u32,
                7 => s.first = x as u32,
                8 => s.last = x as u32,
                9 => s.src_port = x as u16,
                10 => s.dst_port = x as u16,
                11 => s.pad1 = x as u8,
                12 => s.tcp_flags = x as u8,
                13 => {
                    s.protocol_number = x as u8;
                    s.protocol_type = ProtocolTypes::from(x as u8);
                }
                14 => s.tos = x as u8,
                15 => s.src_as = x as u16,
                16 => s.dst_as = x as u16,
                17 => s.src_mask = x as u8,
                18 => s.dst_mask = x as u8,
                _ => s.pad2 = x as u16,
            }
        }
    }
}
fn set7(p: &mut v7::V7, f: usize, rec: usize, x: u64) {
    let h = &mut p.header;
    match f {
        0 => h.sys_up_time = x as u32,
        1 => h.unix_secs = x as u32,
        2 => h.unix_nsecs = x as u32,
        3 => h.flow_sequence = x as u32,
        4 => h.reserved = x as u32,
        5 => {}
        _ => {
            if p.flowsets.is_empty() {
                return;
            }
            let r = rec % p.flowsets.len();
            let s = &mut p.flowsets[r];
            match f - 6 {
                0 => s.src_addr = Ipv4Addr::from(x as u32),
                1 => s.dst_addr = Ipv4Addr::from(x as u32),
                2 => s.next_hop = Ipv4Addr::from(x as u32),
                3 => s.input = x as u16,
                4 => s.output = x as u16,
                5 => s.d_pkts = x as u32,
                6 => s.d_octets = x as u32,
                7 => s.first = x as u32,
                8 => s.last = x as u32,
                9 => s.src_port = x as u16,
                10 => s.dst_port = x as u16,
                11 => s.flags_fields_valid = x as u8,
                12 => s.tcp_flags = x as u8,
                13 => {
                    s.protocol_number = x as u8;
                    s.protocol_type = ProtocolTypes::from(x as u8);
                }
                14 => s.tos = x as u8,
                15 => s.src_as = x as u16,
                16 => s.dst_as = x as u16,
                17 => s.src_mask = x as u8,
                18 => s.dst_mask = x as u8,
                19 => s.flags_fields_invalid = x as u16,
                _ => s.router_src = Ipv4Addr::from(x as u32),
            }
        }
    }
}
const XV: [u64; 5] = [0, 1, 0x8080_8080, 0xffff_ffff, 0xa5c3_96e1];

fn base_struct(version: u16, n: usize) -> NetflowPacket {
    NetflowParser::default().parse_bytes(&fixed_distinct(version, n, 29)).remove(0)
}

/// struct (count == records) -> to_be_bytes -> parse -> equal struct
fn judge_struct(version: u16, n: usize, f1: usize, f2: usize, v1: usize, v2: usize, rec: usize) -> Eval {
    let mut issues = vec![];
    let (bytes, want) = match base_struct(version, n) {
        NetflowPacket::V5(mut s) => {
            set5(&mut s, f1, rec, XV[v1]);
            set5(&mut s, f2, rec + 1, XV[v2]);
            (s.to_be_bytes(), CPkt::Fixed(c_v5(&s)))
        }
        NetflowPacket::V7(mut s) => {
            set7(&mut s, f1, rec, XV[v1]);
            set7(&mut s, f2, rec + 1, XV[v2]);
            (s.to_be_bytes(), CPkt::Fixed(c_v7(&s)))
        }
        _ => panic!("base packet did not parse"),
    };
    let got: Vec<CPkt> = NetflowParser::default().parse_bytes(&bytes).iter().map(c_pkt).collect();
    if got.len() != 1 {
        issues.push(issue(format!("v{}/struct-roundtrip/result-length", version), format!("exported bytes parse into {} elements", got.len())));
    } else {
        let mut d = vec![];
        crate::diff::diff_pkt(0, &want, &got[0], &mut d);
        for i in d {
            issues.push(issue(format!("struct-roundtrip/{}", i.sig), i.detail));
        }
    }
    Eval { key: h64(&bytes), transitions: 1, issues, tags: vec![] }
}

pub fn spaces(tier: &str) -> Vec<Box<dyn Space>> {
    let mut v: Vec<Box<dyn Space>> = vec![];
    // part 1: C03's input spaces under the re-export oracle
    v.extend(super::c03::buffers(tier).into_iter().map(|g| g.into_space(judge_bytes)));
    for version in [5u16, 7] {
        let rs = rec_size(version);
        let maxrec = (65535 - 24) / rs;
        // chained packets: every ordered pair/triple of {v5 x0,x1,x2 ; v7 x0,x1,x2}
        v.push(space(
            &format!("v{}-first-chains", version),
            6 * 6 * 6,
            move |i| {
                let d = digits(i, &[6, 6, 6]);
                let mut b = fixed_distinct(version, 1, 40);
                for (k, x) in d.iter().enumerate() {
                    b.extend(fixed_distinct(if *x < 3 { 5 } else { 7 }, (*x % 3) as usize, 50 + k));
                }
                judge_bytes(&b)
            },
            |i| json!({"chain": digits(i, &[6,6,6])}),
        ));
        // part 2: struct -> bytes -> struct
        let nf = if version == 5 { NF5 } else { NF7 } as u64;
        let counts: Vec<usize> = if tier == "thorough" { vec![0, 1, 2, 3, 40, maxrec] } else { vec![0, 1, 2, 3, 40] };
        for n in counts {
            v.push(space(
                &format!("v{}-struct-roundtrip-{}-records", version, n),
                nf * nf * 25 * 2,
                move |i| {
                    let d = digits(i, &[nf, nf, 5, 5, 2]);
                    judge_struct(version, n, d[0] as usize, d[1] as usize, d[2] as usize, d[3] as usize, if d[4] == 0 { 0 } else { n.saturating_sub(1) })
                },
                move |i| json!({"version": version, "records": n, "digits(field1,field2,value1,value2,record)": digits(i, &[nf, nf, 5, 5, 2])}),
            ));
        }
    }
    v
}

pub fn run(tier: &str) -> i32 {
    let rep = Report {
        prop: "C08".into(),
        tier: tier.into(),
        level: "exploration",
        rule: "every index of each space: walking byte over two base packets, every materialisable record count, all chains of <=4 packets over a 6-packet menu (re-export == occupied slice); all pairs of struct fields x 5x5 values x first/last record x counts {0,1,2,3,max} (struct -> bytes -> struct)".into(),
        bounds: json!({"versions": [5,7], "struct domain": "count == flowsets.len(), version 5/7, protocol_type == ProtocolTypes::from(protocol_number)"}),
        assumptions: vec!["the slice a packet occupied is computed by the reference layout (24 + 48/52*count)".into()],
        trusted_base: vec!["refmodel::ref_fixed".into()],
        required_tags: vec![],
        extra: Default::default(),
    };
    run_report(rep, spaces(tier))
}
