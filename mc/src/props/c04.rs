//! C04 — V9 flowsets decode record by record exactly as the governing template says (E-ENUM + short histories).
use super::stream::*;
use crate::alphabet::*;
use crate::engine::*;
use crate::refmodel::*;
use crate::util::*;
use crate::wire::*;
use serde_json::json;

fn value_for(f: &FieldSpec, r: usize, k: usize) -> Vec<u8> {
    let w = f.len as usize;
    match class_v9(f.ty) {
        Class::Proto => vec![[6u8, 17, 1, 47, 58, 132][(r + k) % 6]],
        _ => rec_value(r, k, w),
    }
}

/// data body: `nrec` records of the template, byte-distinct, plus `pad` bytes of padding
pub fn body_for(fields: &[FieldSpec], nrec: usize, pad: usize, dev: Option<(usize, usize, &[u8])>) -> Vec<u8> {
    let mut b = vec![];
    for r in 0..nrec {
        for (k, f) in fields.iter().enumerate() {
            match dev {
                Some((dr, dk, val)) if dr == r && dk == k => b.extend_from_slice(val),
                _ => b.extend(value_for(f, r, k)),
            }
        }
    }
    b.extend(std::iter::repeat(0).take(pad));
    b
}

/// deliver template + data: 0 = same packet, 1 = template in a previous call, 2 = two packets in one buffer
pub fn deliver(tpl: V9Set, data: V9Set, mode: u64) -> Vec<Vec<u8>> {
    match mode {
        0 => vec![v9_packet(&V9Pkt::new(vec![tpl, data]))],
        1 => vec![v9_packet(&V9Pkt::new(vec![tpl])), v9_packet(&V9Pkt::new(vec![data]))],
        _ => {
            let mut b = v9_packet(&V9Pkt::new(vec![tpl]));
            b.extend(v9_packet(&V9Pkt::new(vec![data])));
            vec![b]
        }
    }
}

const SCOPE_W: [u16; 3] = [1, 2, 4];
fn scope_spec(i: usize) -> FieldSpec {
    fs((i / 3) as u16 + 1, SCOPE_W[i % 3])
}
const OPT_REPS: [FieldSpec; 4] = [fs(1, 4), fs(82, 2), fs(34, 1), fs(300, 3)];

fn sublist(n: usize, maxlen: usize, idx: u64) -> Vec<usize> {
    // lists of length 0..=maxlen
    if idx == 0 {
        vec![]
    } else {
        list_at(n, maxlen, idx - 1)
    }
}

// menu for flowset mixes
fn mix_tpl(which: usize) -> V9Tpl {
    match which {
        0 => V9Tpl { id: 256, fields: vec![fs(1, 4), fs(7, 2)] },
        1 => V9Tpl { id: 257, fields: vec![fs(8, 4), fs(4, 1), fs(5, 1)] },
        // same field count and record size as template 0, different fields (a redefinition that only a full
        // comparison of the field list can tell from a refresh)
        3 => V9Tpl { id: 256, fields: vec![fs(7, 2), fs(2, 4)] },
        // a redefinition that introduces a field type the library does not know
        4 => V9Tpl { id: 256, fields: vec![fs(1, 4), fs(600, 2)] },
        _ => V9Tpl { id: 256, fields: vec![fs(2, 8), fs(96, 4)] },
    }
}
fn mix_opt() -> V9OptTpl {
    V9OptTpl { id: 258, scope: vec![fs(1, 4)], opts: vec![fs(34, 2), fs(36, 2)] }
}
fn mix_body(salt: usize, pad: usize) -> Vec<u8> {
    let mut b: Vec<u8> = (0..12).map(|j| fill(salt, j)).collect();
    b[4] = 6; // a valid protocol number where template B reads its protocol
    b[10] = 17;
    b.extend(std::iter::repeat(0).take(pad));
    b
}
fn mix_set(k: usize, pos: usize) -> (V9Set, usize) {
    // returns the set and the number of records it carries (for count = number of records)
    match k {
        0 => (V9Set::Tpl(vec![mix_tpl(0)], 0), 1),
        1 => (V9Set::Tpl(vec![mix_tpl(1)], 0), 1),
        2 => (V9Set::Tpl(vec![mix_tpl(0), mix_tpl(1)], 0), 2),
        3 => (V9Set::OptTpl(vec![mix_opt()], 2), 1),
        4 => (V9Set::Data(256, mix_body(10 + pos, pos % 4)), 2),
        5 => (V9Set::Data(257, mix_body(20 + pos, (pos + 1) % 4)), 2),
        6 => (V9Set::Data(258, mix_body(30 + pos, 0)[..8].to_vec()), 1),
        7 => (V9Set::Tpl(vec![mix_tpl(2)], 0), 1),
        8 => (V9Set::Tpl(vec![mix_tpl(3)], 0), 1),
        9 => (V9Set::Tpl(vec![mix_tpl(4)], 0), 1),
        // an options template under the id the plain templates use: the id changes kind
        10 => (V9Set::OptTpl(vec![V9OptTpl { id: 256, scope: vec![fs(2, 2)], opts: vec![fs(34, 2), fs(36, 4)] }], 2), 1),
        // 8 data bytes for 256: one record of that options template, one record and two bytes under template 0, less
        // than a record under the 12-byte templates
        _ => (V9Set::Data(256, mix_body(50 + pos, 0)[..8].to_vec()), 1),
    }
}

pub fn streams(tier: &str) -> Vec<StreamGen> {
    streams_with(tier, if tier == "thorough" { 5 } else { 4 })
}

/// `lists`: length bound of the multi-field template lists (the properties whose oracle is costly per evaluation -
/// serialisation, the second build - take one less in each tier)
pub fn streams_with(tier: &str, lists: usize) -> Vec<StreamGen> {
    let thorough = tier == "thorough";
    let mut v: Vec<StreamGen> = vec![];

    // 1. single-field sweep: every type x supported width x value menu x delivery x padding
    {
        let mut cases: Vec<(FieldSpec, Vec<u8>)> = vec![];
        for f in v9_sweep() {
            for val in values(class_v9(f.ty), f.len as usize) {
                cases.push((f, val));
            }
        }
        let n = cases.len() as u64;
        let mk = move |i: u64| {
            let d = digits(i, &[n, 3, 4]);
            let (f, val) = &cases[d[0] as usize];
            let fields = vec![*f];
            let body = body_for(&fields, 2, d[2] as usize, Some((0, 0, val)));
            deliver(V9Set::Tpl(vec![V9Tpl { id: 300, fields }], 0), V9Set::Data(300, body), d[1])
        };
                v.push(stream_gen("v9-single-field-sweep", n * 12, move |i| Some(mk(i))));
    }
    // 2. multi-field templates over the class representatives
    {
        let reps = v9_reps();
        let maxlen = lists;
        let nl = list_count(reps.len(), maxlen);
        let r2 = reps.clone();
        let mk = move |i: u64| -> Option<Vec<Vec<u8>>> {
            let d = digits(i, &[nl, 4, 4, 3]);
            let fields: Vec<FieldSpec> = list_at(reps.len(), maxlen, d[0]).into_iter().map(|k| reps[k]).collect();
            let rs = fields.iter().map(|f| f.len as usize).sum::<usize>();
            if rs == 0 {
                return None;
            }
            // 0 records: a body holding only padding (shorter than a record)
            let pad = if d[1] == 0 { (d[2] as usize).min(rs - 1) } else { d[2] as usize };
            let body = body_for(&fields, d[1] as usize, pad, None);
            Some(deliver(V9Set::Tpl(vec![V9Tpl { id: 256, fields }], 0), V9Set::Data(256, body), d[3]))
        };
                v.push(stream_gen(&format!("v9-multi-field-lists<={}", maxlen), nl * 48, mk));
        // single-deviation field values inside multi-field templates (lists of length <= 2)
        let reps = r2;
        let nl2 = list_count(reps.len(), 2);
        let mk = move |i: u64| -> Option<Vec<Vec<u8>>> {
            let d = digits(i, &[nl2, 2, 12, 2]);
            let fields: Vec<FieldSpec> = list_at(reps.len(), 2, d[0]).into_iter().map(|k| reps[k]).collect();
            let k = d[1] as usize;
            if k >= fields.len() || fields.iter().map(|f| f.len as usize).sum::<usize>() == 0 {
                return None;
            }
            let vals = values(class_v9(fields[k].ty), fields[k].len as usize);
            let val = vals.get(d[2] as usize)?.clone();
            let body = body_for(&fields, 3, 1, Some((d[3] as usize + 1, k, &val)));
            Some(deliver(V9Set::Tpl(vec![V9Tpl { id: 256, fields }], 0), V9Set::Data(256, body), 1))
        };
                v.push(stream_gen("v9-multi-field-single-value-deviation", nl2 * 2 * 12 * 2, mk));
    }
    // 3. options templates: scope lists 0..=2 x option lists 0..=2 x records x padding x delivery
    {
        let ns = 1 + list_count(15, 2);
        let no = 1 + list_count(4, 2);
        let mk = move |i: u64| -> Option<Vec<Vec<u8>>> {
            let d = digits(i, &[ns, no, 2, 4, 2]);
            let scope: Vec<FieldSpec> = sublist(15, 2, d[0]).into_iter().map(scope_spec).collect();
            let opts: Vec<FieldSpec> = sublist(4, 2, d[1]).into_iter().map(|k| OPT_REPS[k]).collect();
            if scope.is_empty() && opts.is_empty() {
                return None;
            }
            let all: Vec<FieldSpec> = scope.iter().chain(opts.iter()).cloned().collect();
            let mut body = vec![];
            for r in 0..(d[2] as usize + 1) {
                for (k, f) in all.iter().enumerate() {
                    body.extend(rec_value(r, k, f.len as usize));
                }
            }
            let rs: usize = all.iter().map(|f| f.len as usize).sum();
            let pad = (d[3] as usize).min(rs.saturating_sub(1));
            body.extend(std::iter::repeat(0).take(pad));
            Some(deliver(V9Set::OptTpl(vec![V9OptTpl { id: 400, scope, opts }], 2), V9Set::Data(400, body), d[4]))
        };
                v.push(stream_gen("v9-options-templates", ns * no * 16, mk));
    }
    // 4. flowset mixes: all sequences of <= 3 (thorough 5) sets over a 12-set menu x prior context x count convention
    {
        let maxlen = if thorough { 5 } else { 3 };
        let nl = list_count(12, maxlen);
        let mk = move |i: u64| -> Vec<Vec<u8>> {
            let d = digits(i, &[nl, 2, 2]);
            let seq = list_at(12, maxlen, d[0]);
            let mut sets = vec![];
            let mut nrecords = 0;
            for (pos, k) in seq.iter().enumerate() {
                let (s, n) = mix_set(*k, pos);
                sets.push(s);
                nrecords += n;
            }
            let mut pkt = V9Pkt::new(sets);
            if d[2] == 1 {
                pkt.count = Some(nrecords as u16);
            }
            let mut calls = vec![];
            if d[1] == 1 {
                calls.push(v9_packet(&V9Pkt::new(vec![V9Set::Tpl(vec![mix_tpl(0), mix_tpl(1)], 0), V9Set::OptTpl(vec![mix_opt()], 2)])));
            }
            calls.push(v9_packet(&pkt));
            calls
        };
                v.push(stream_gen(&format!("v9-flowset-mixes<={}", maxlen), nl * 4, move |i| Some(mk(i))));
    }
    // 5. two templates per flowset with data for both, every order, records 1..=3 each, padding 0..=3
    {
        let mk = move |i: u64| -> Vec<Vec<u8>> {
            let d = digits(i, &[2, 3, 3, 4, 4, 3]);
            let a = V9Tpl { id: 256, fields: vec![fs(8, 4), fs(7, 2), fs(5, 1)] };
            let b = V9Tpl { id: 257, fields: vec![fs(27, 16), fs(3, 3)] };
            let da = V9Set::Data(256, body_for(&a.fields, d[1] as usize + 1, d[3] as usize, None));
            let db = V9Set::Data(257, body_for(&b.fields, d[2] as usize + 1, d[4] as usize, None));
            let t = V9Set::Tpl(vec![a, b], 0);
            let data = if d[0] == 0 { vec![da, db] } else { vec![db, da] };
            match d[5] {
                0 => vec![v9_packet(&V9Pkt::new(std::iter::once(t).chain(data).collect()))],
                1 => vec![v9_packet(&V9Pkt::new(vec![t])), v9_packet(&V9Pkt::new(data))],
                _ => vec![v9_packet(&V9Pkt::new(vec![t])), v9_packet(&V9Pkt::new(vec![data[0].clone()])), v9_packet(&V9Pkt::new(vec![data[1].clone()]))],
            }
        };
                v.push(stream_gen("v9-two-templates-per-flowset", 2 * 3 * 3 * 4 * 4 * 3, move |i| Some(mk(i))));
    }
    // 5a. a template flowset that defines an id twice (the later record wins) among other ids, then data for all
    {
        let mk = move |i: u64| -> Vec<Vec<u8>> {
            let d = digits(i, &[3, 2, 3]);
            let a = V9Tpl { id: 256, fields: vec![fs(8, 4), fs(7, 2)] };
            let b = V9Tpl { id: 257, fields: vec![fs(27, 16)] };
            let c = V9Tpl { id: 258, fields: vec![fs(1, 4), fs(5, 1)] };
            let a2 = V9Tpl { id: 256, fields: vec![fs(2, 4), fs(4, 1), fs(5, 1)] };
            let recs = match d[0] {
                0 => vec![a.clone(), b.clone(), a2.clone()],
                1 => vec![a.clone(), a2.clone(), b.clone(), c.clone()],
                _ => vec![b.clone(), a.clone(), c.clone(), a2.clone(), a.clone()],
            };
            let last_a = if d[0] == 2 { &a } else { &a2 };
            let t = V9Set::Tpl(recs, 0);
            let data = vec![V9Set::Data(256, body_for(&last_a.fields, 2, d[1] as usize, None)), V9Set::Data(257, body_for(&b.fields, 1, 0, None))];
            match d[2] {
                0 => vec![v9_packet(&V9Pkt::new(std::iter::once(t).chain(data).collect()))],
                1 => vec![v9_packet(&V9Pkt::new(vec![t])), v9_packet(&V9Pkt::new(data))],
                _ => {
                    let mut b1 = v9_packet(&V9Pkt::new(vec![t]));
                    b1.extend(v9_packet(&V9Pkt::new(data)));
                    vec![b1]
                }
            }
        };
        v.push(stream_gen("v9-template-flowset-repeating-an-id", 18, move |i| Some(mk(i))));
    }
    // 5b. two options templates per flowset with data for both, every order and delivery
    {
        let mk = move |i: u64| -> Vec<Vec<u8>> {
            let d = digits(i, &[2, 2, 3]);
            let a = V9OptTpl { id: 400, scope: vec![fs(1, 4)], opts: vec![fs(34, 2), fs(36, 2)] };
            let b = V9OptTpl { id: 401, scope: vec![fs(2, 2), fs(5, 1)], opts: vec![fs(82, 5)] };
            let da = V9Set::Data(400, (0..8).map(|j| fill(3, j)).collect());
            let db = V9Set::Data(401, (0..8).map(|j| fill(4, j)).chain(std::iter::repeat(0).take(d[1] as usize)).collect());
            let t = V9Set::OptTpl(vec![a, b], 0);
            let data = if d[0] == 0 { vec![da, db] } else { vec![db, da] };
            match d[2] {
                0 => vec![v9_packet(&V9Pkt::new(std::iter::once(t).chain(data).collect()))],
                1 => vec![v9_packet(&V9Pkt::new(vec![t])), v9_packet(&V9Pkt::new(data))],
                _ => vec![v9_packet(&V9Pkt::new(vec![t])), v9_packet(&V9Pkt::new(vec![data[0].clone()])), v9_packet(&V9Pkt::new(vec![data[1].clone()]))],
            }
        };
        v.push(stream_gen("v9-two-options-templates-per-flowset", 12, move |i| Some(mk(i))));
    }
    // 6. header values: every header field x threshold menu (0, 1, high bit, all ones, powers of two / ten +-1 ...)
    {
        let menu: Vec<u32> = values(Class::Unsigned, 4).into_iter().map(|x| u32::from_be_bytes([x[0], x[1], x[2], x[3]])).collect();
        let nm = menu.len() as u64;
        let mk = move |i: u64| -> Vec<Vec<u8>> {
            let d = digits(i, &[4, nm]);
            let x = menu[d[1] as usize];
            let f = vec![fs(1, 4)];
            let mut p = V9Pkt::new(vec![V9Set::Tpl(vec![V9Tpl { id: 256, fields: f.clone() }], 0), V9Set::Data(256, body_for(&f, 1, 0, None))]);
            match d[0] {
                0 => p.sys_up_time = x,
                1 => p.unix_secs = x,
                2 => p.seq = x,
                _ => p.source_id = x,
            }
            vec![v9_packet(&p)]
        };
        v.push(stream_gen("v9-header-values", 4 * nm, move |i| Some(mk(i))));
    }
    // 7. wide templates: 10, 11, 12, 16, 33, 100, 257 (thorough 1000, 4000) fields cycling through the class representatives
    {
        let reps: Vec<FieldSpec> = v9_reps().into_iter().filter(|f| f.len > 0).collect();
        let widths: Vec<usize> = if thorough { vec![10, 11, 12, 16, 33, 100, 257, 1000, 4000] } else { vec![10, 11, 12, 16, 33, 100, 257] };
        let nw = widths.len() as u64;
        let mk = move |i: u64| -> Vec<Vec<u8>> {
            let d = digits(i, &[nw, 2, 3]);
            let n = widths[d[0] as usize];
            let fields: Vec<FieldSpec> = (0..n).map(|k| reps[(k * 7 + k / reps.len()) % reps.len()]).collect();
            let body = body_for(&fields, d[1] as usize + 1, 0, None);
            deliver(V9Set::Tpl(vec![V9Tpl { id: 256, fields }], 0), V9Set::Data(256, body), d[2])
        };
        v.push(stream_gen("v9-wide-templates", nw * 6, move |i| Some(mk(i))));
    }
    // 7b. the same field type listed twice (or three times) with different widths: every occurrence is decoded at its
    // own width and position
    {
        let menu: Vec<(u16, Vec<u16>)> = vec![(1, vec![1, 2, 4, 8]), (96, vec![2, 5, 9]), (95, vec![1, 3]), (21, vec![4, 8])];
        let mut cases: Vec<Vec<FieldSpec>> = vec![];
        for (ty, ws) in &menu {
            for a in ws {
                for b in ws {
                    if a != b {
                        cases.push(vec![fs(*ty, *a), fs(7, 2), fs(*ty, *b)]);
                        cases.push(vec![fs(*ty, *a), fs(*ty, *b), fs(*ty, *a)]);
                    }
                }
            }
        }
        let nc = cases.len() as u64;
        let mk = move |i: u64| -> Vec<Vec<u8>> {
            let d = digits(i, &[nc, 3]);
            let fields = cases[d[0] as usize].clone();
            let body = body_for(&fields, 2, 0, None);
            deliver(V9Set::Tpl(vec![V9Tpl { id: 256, fields }], 0), V9Set::Data(256, body), d[1])
        };
        v.push(stream_gen("v9-same-field-type-at-different-widths", nc * 3, move |i| Some(mk(i))));
    }
    // 8. many records per data flowset: counts around every power of two up to what one datagram holds, three
    // template shapes, template delivered in the same packet / same buffer / an earlier call
    {
        let shapes: Vec<Vec<FieldSpec>> = vec![vec![fs(5, 1)], vec![fs(1, 4)], vec![fs(8, 4), fs(7, 2), fs(4, 1), fs(5, 1)]];
        let mut counts: Vec<usize> = vec![];
        for k in 2..=16u32 {
            let p = 1usize << k;
            counts.extend([p - 1, p, p + 1]);
        }
        counts.extend([100, 1000, 10000]);
        let (ns, nc) = (shapes.len() as u64, counts.len() as u64);
        let mk = move |i: u64| -> Option<Vec<Vec<u8>>> {
            let d = digits(i, &[ns, nc, 3]);
            let fields = shapes[d[0] as usize].clone();
            let rs: usize = fields.iter().map(|f| f.len as usize).sum();
            let n = counts[d[1] as usize];
            if n * rs + 4 + 20 + 8 + 4 * fields.len() + 4 > 65535 {
                return None;
            }
            let body = body_for(&fields, n, 0, None);
            Some(deliver(V9Set::Tpl(vec![V9Tpl { id: 256, fields }], 0), V9Set::Data(256, body), d[2]))
        };
        v.push(stream_gen("v9-many-records-per-flowset", ns * nc * 3, mk));
    }
    v
}

pub fn run(tier: &str) -> i32 {
    let rep = Report {
        prop: "C04".into(),
        tier: tier.into(),
        level: "model_checking",
        rule: "every index of each space is a conformant V9 stream (1..3 calls on one fresh parser) built from finite menus: every field type 1..=520(+extras) x every supported width x value menu x delivery x padding; all lists of class representatives of length <= 4 (thorough 5) x records x padding x delivery; all scope/option lists; all flowset sequences of length <= 3 (thorough 6) over a 12-set menu x prior context x count convention. Each call's result is compared with the RFC 3954 reference decode; an outcome is distinct by the hash of the canonical results of all calls".into(),
        bounds: json!({"history_depth": 3, "multi_field_list_len": if tier=="thorough" {5} else {4}, "flowset_sequence_len": if tier=="thorough" {6} else {3}, "records_per_flowset": "1..=3", "padding": "0..=3"}),
        assumptions: vec!["field number -> (name, value class) is the library's own table (pinned by its lookup snapshot tests)".into(), "count field read as an upper bound on flowsets (C11's reading); a packet extends to the end of the buffer otherwise".into()],
        trusted_base: vec!["refmodel::ref_v9 (RFC 3954 reference decoder) and refmodel::decode".into()],
        required_tags: vec![],
        extra: Default::default(),
    };
    run_report(rep, streams(tier).into_iter().map(|g| g.into_space(|c| judge_stream(c).eval)).collect())
}
