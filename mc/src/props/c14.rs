//! C14 — a truncated packet is reported as an error, never as a shorter valid one (E-ENUM: every cut point).
use crate::alphabet::*;
use crate::cform::*;
use crate::engine::*;
use crate::util::*;
use crate::wire::*;
use netflow_parser::NetflowPacket;
use serde_json::json;

#[derive(Clone)]
struct Seed {
    name: String,
    /// calls that make the packet decodable (templates), delivered before
    needs: Vec<u8>,
    packet: Vec<u8>,
    /// V9: offsets at which a cut yields a shorter *valid* packet (flowset boundaries) — excluded by the property
    boundaries: Vec<usize>,
}

fn v9_boundaries(p: &[u8]) -> Vec<usize> {
    let mut v = vec![20];
    let mut o = 20;
    while o + 4 <= p.len() {
        let l = (r16(p, o + 2) as usize).max(4);
        o += l;
        v.push(o);
    }
    v
}

fn seeds(thorough: bool) -> Vec<Seed> {
    let mut v = vec![];
    for ver in [5u16, 7] {
        let mut counts = vec![0usize, 1, 2, 3, 30];
        if thorough {
            counts.push((65535 - 24) / rec_size(ver));
        }
        for n in counts {
            v.push(Seed { name: format!("v{}x{}", ver, n), needs: vec![], packet: fixed_distinct(ver, n, 3), boundaries: vec![] });
        }
    }
    // V9: template packets, data packets (templates delivered before), mixed packets
    let reps = v9_reps();
    for (k, f) in reps.iter().enumerate() {
        if f.len == 0 {
            continue;
        }
        let fields = vec![*f, reps[(k + 3) % reps.len()]];
        let t = V9Set::Tpl(vec![V9Tpl { id: 256, fields: fields.clone() }], 0);
        let d = V9Set::Data(256, crate::props::c04::body_for(&fields, 2, k % 4, None));
        let tp = v9_packet(&V9Pkt::new(vec![t.clone()]));
        let dp = v9_packet(&V9Pkt::new(vec![d.clone()]));
        let td = v9_packet(&V9Pkt::new(vec![t, d]));
        v.push(Seed { name: format!("v9-T-{}", k), needs: vec![], boundaries: v9_boundaries(&tp), packet: tp.clone() });
        v.push(Seed { name: format!("v9-D-{}", k), needs: tp, boundaries: v9_boundaries(&dp), packet: dp });
        v.push(Seed { name: format!("v9-TD-{}", k), needs: vec![], boundaries: v9_boundaries(&td), packet: td });
    }
    {
        let o = V9OptTpl { id: 258, scope: vec![fs(1, 4), fs(2, 2)], opts: vec![fs(34, 2), fs(36, 2)] };
        let p = v9_packet(&V9Pkt::new(vec![V9Set::OptTpl(vec![o.clone(), V9OptTpl { id: 259, ..o.clone() }], 0), V9Set::Data(258, (0..10).map(|j| fill(4, j)).collect()), V9Set::Data(259, (0..12).map(|j| fill(5, j)).collect())]));
        v.push(Seed { name: "v9-options".into(), needs: vec![], boundaries: v9_boundaries(&p), packet: p });
    }
    // IPFIX
    let reps = ipfix_reps();
    for (k, f) in reps.iter().enumerate() {
        if f.len == 0 {
            continue;
        }
        let fields = vec![*f, reps[(k + 5) % reps.len()]];
        if crate::refmodel::ipfix_min_record(&fields) == 0 {
            continue;
        }
        let t = IpfixSet::Tpl(vec![IpfixTpl { id: 256, fields: fields.clone() }], 0);
        let d = IpfixSet::Data(256, crate::props::c05::body_for(&fields, 2, k % 4, None));
        let tp = ipfix_message(&IpfixMsg::new(vec![t.clone()]));
        let dp = ipfix_message(&IpfixMsg::new(vec![d.clone()]));
        let td = ipfix_message(&IpfixMsg::new(vec![t, d]));
        v.push(Seed { name: format!("ipfix-T-{}", k), needs: vec![], boundaries: vec![], packet: tp.clone() });
        v.push(Seed { name: format!("ipfix-D-{}", k), needs: tp, boundaries: vec![], packet: dp });
        v.push(Seed { name: format!("ipfix-TD-{}", k), needs: vec![], boundaries: vec![], packet: td });
    }
    {
        let o = IpfixOptTpl { id: 258, scope_count: 1, fields: vec![fs(149, 4), fs(41, 2), fs(82, 65535)] };
        let body = crate::props::c05::body_for(&o.fields, 2, 0, None);
        let p = ipfix_message(&IpfixMsg::new(vec![IpfixSet::OptTpl(vec![o], 0), IpfixSet::Data(258, body)]));
        v.push(Seed { name: "ipfix-options".into(), needs: vec![], boundaries: vec![], packet: p });
        v.push(Seed { name: "ipfix-header-only".into(), needs: vec![], boundaries: vec![], packet: ipfix_message(&IpfixMsg::new(vec![])) });
    }
    if thorough {
        // maximal variable packets from the ladder
        let f = vec![fs(1, 4)];
        let n = (65535 - 24) / 4;
        v.push(Seed {
            name: "ipfix-max-records".into(),
            needs: ipfix_message(&IpfixMsg::new(vec![IpfixSet::Tpl(vec![IpfixTpl { id: 256, fields: f.clone() }], 0)])),
            boundaries: vec![],
            packet: ipfix_message(&IpfixMsg::new(vec![IpfixSet::Data(256, (0..n * 4).map(|j| fill(j / 251, j)).collect())])),
        });
    }
    v
}

const CTX: [&str; 3] = ["alone", "after a V5 packet", "after the template packet it needs (same buffer)"];

#[derive(Clone)]
struct Case {
    seed: usize,
    cut: usize,
    /// 0 = alone; 1 = after a V5 packet; 2 = after the packet(s) it needs, same buffer; 3 = needs delivered in an earlier call
    ctx: u8,
}

fn judge(sd: &Seed, c: &Case) -> Eval {
    let mut issues = vec![];
    let version = r16(&sd.packet, 0);
    let truncated = &sd.packet[..c.cut];
    let mut p = new_parser(None);
    let mut prefix: Vec<u8> = vec![];
    match c.ctx {
        1 => {
            if !sd.needs.is_empty() {
                p.parse_bytes(&sd.needs);
            }
            prefix = fixed_distinct(5, 1, 77);
        }
        2 => prefix = sd.needs.clone(),
        _ => {
            if !sd.needs.is_empty() {
                p.parse_bytes(&sd.needs);
            }
        }
    }
    // the un-truncated run from the same state (for "preceding elements unchanged" and the validity of the seed)
    let mut pfull = rebuild(&caches(&p), None);
    let mut full_in = prefix.clone();
    full_in.extend_from_slice(&sd.packet);
    let full = pfull.parse_bytes(&full_in);
    let nprefix = NetflowParserResultCount::count(&prefix);
    if full.len() != nprefix + 1 || full.iter().any(|e| e.is_error()) {
        panic!("C14 seed {} is not a valid packet in context {} ({} elements)", sd.name, c.ctx, full.len());
    }
    let mut input = prefix.clone();
    input.extend_from_slice(truncated);
    let res = p.parse_bytes(&input);
    let after = snap(&p);
    // preceding elements unchanged
    let npre = nprefix.min(res.len());
    for k in 0..npre {
        if format!("{:?}", res[k]) != format!("{:?}", full[k]) {
            issues.push(issue("preceding-packet-changed", format!("element {} differs from the un-truncated run", k)));
        }
    }
    match res.last() {
        Some(NetflowPacket::Error(e)) if res.len() == nprefix + 1 => {
            if e.remaining != truncated {
                issues.push(issue(format!("v{}/error-remaining", version), format!("error.remaining has {} bytes, the truncated packet has {}", e.remaining.len(), truncated.len())));
            }
        }
        _ => {
            let kinds: Vec<String> = res.iter().map(|e| format!("{:?}", c_pkt(e).version())).collect();
            issues.push(issue(format!("v{}/truncated-packet-not-an-error", version), format!("cut at {} of {}: result kinds {:?} (expected {} packet(s) then one error)", c.cut, sd.packet.len(), kinds, nprefix)));
        }
    }
    if version != 9 {
        // templates carried by the context prefix are legitimately learned; compare with a run of the prefix alone
        let mut pref_only = new_parser(None);
        if c.ctx != 2 && !sd.needs.is_empty() {
            pref_only.parse_bytes(&sd.needs);
        }
        pref_only.parse_bytes(&prefix);
        if snap(&pref_only) != after {
            issues.push(issue(format!("v{}/cache-changed-by-truncated-packet", version), "template caches differ from those after the prefix alone".to_string()));
        }
    }
    let key = h64(&(sd.name.as_str(), c.cut, c.ctx));
    Eval { key, transitions: 2, issues, tags: vec![] }
}

// small helpers -------------------------------------------------------------------------------------------
struct NetflowParserResultCount;
impl NetflowParserResultCount {
    /// number of packets in a context prefix (prefixes are built from whole packets: V5 or the needed template packet)
    fn count(prefix: &[u8]) -> usize {
        if prefix.is_empty() {
            0
        } else {
            1
        }
    }
}

pub fn spaces(tier: &str) -> Vec<Box<dyn Space>> {
    let thorough = tier == "thorough";
    let sds = seeds(thorough);
    let mut cases = vec![];
    for (si, s) in sds.iter().enumerate() {
        let ctxs: Vec<u8> = if s.needs.is_empty() { vec![0, 1] } else { vec![0, 1, 2] };
        let big = s.packet.len() > 4000;
        for cut in 1..s.packet.len() {
            if s.boundaries.contains(&cut) {
                continue;
            }
            for ctx in &ctxs {
                if big && *ctx != 0 {
                    continue;
                }
                cases.push(Case { seed: si, cut, ctx: *ctx });
            }
        }
    }
    let sds = std::sync::Arc::new(sds);
    let s2 = sds.clone();
    vec![list_space(
        &format!("every-cut-point-of-{}-valid-packets", sds.len()),
        cases,
        move |c: &Case| judge(&sds[c.seed], c),
        move |c: &Case| {
            let sd = &s2[c.seed];
            json!({"seed": sd.name, "cut": c.cut, "packet_len": sd.packet.len(), "context": CTX[c.ctx as usize], "templates_needed": hex(&sd.needs), "truncated_packet": short(&sd.packet[..c.cut])})
        },
    )]
}

pub fn run(tier: &str) -> i32 {
    let rep = Report {
        prop: "C14".into(),
        tier: tier.into(),
        level: "fault_enumeration",
        rule: "every cut point strictly inside every seed packet (V5/V7 with 0,1,2,3,30(,max) records; V9 and IPFIX template, data, template+data, options packets over the class representatives), excluding V9 flowset boundaries, alone / after a V5 packet / after the template packet it needs; a case is distinct by (seed, cut, context)".into(),
        bounds: json!({"contexts": 3, "max_packet": if tier == "thorough" {"datagram limit"} else {"30 records"}}),
        assumptions: vec!["seed validity is checked at run time (the un-truncated packet must decode without error in the same context)".into()],
        trusted_base: vec!["c14::judge".into()],
        required_tags: vec![],
        extra: Default::default(),
    };
    run_report(rep, spaces(tier))
}
