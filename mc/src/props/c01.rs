//! C01 — parsing untrusted bytes never crashes, aborts, overflows the stack or hangs (E-SWEEP).
use crate::cform::new_parser;
use crate::engine::*;
use crate::families::*;
use crate::ladder::ladder_family;
use crate::sweep::*;
use crate::util::h64;
use netflow_parser::{NetflowPacket, NetflowParseError};
use serde_json::{json, Value};
use std::collections::BTreeMap;
use std::sync::atomic::{AtomicU8, Ordering};
use std::sync::Arc;
use std::time::{Duration, Instant};

pub static STAGE: AtomicU8 = AtomicU8::new(0);
pub const STAGES: [&str; 7] = ["build-case", "parse_bytes(prior)", "parse_bytes(input)", "to_be_bytes", "as_netflow_common", "serde_json", "parse_bytes_as_netflow_common_flowsets"];

fn post(res: &[NetflowPacket], acc: &mut Vec<u64>) {
    for e in res {
        STAGE.store(3, Ordering::Relaxed);
        let (tag, n) = match e {
            NetflowPacket::V5(x) => (5u64, x.to_be_bytes().len() as u64),
            NetflowPacket::V7(x) => (7, x.to_be_bytes().len() as u64),
            NetflowPacket::V9(x) => (9, x.to_be_bytes().map(|b| b.len() as u64).unwrap_or(u64::MAX) ^ ((x.flowsets.len() as u64) << 32)),
            NetflowPacket::IPFix(x) => (10, x.to_be_bytes().map(|b| b.len() as u64).unwrap_or(u64::MAX) ^ ((x.flowsets.len() as u64) << 32)),
            NetflowPacket::Error(er) => (
                match er.error {
                    NetflowParseError::Incomplete(_) => 100,
                    NetflowParseError::Partial(_) => 101,
                    NetflowParseError::UnallowedVersion(_) => 102,
                    NetflowParseError::UnknownVersion(_) => 103,
                },
                er.remaining.len() as u64,
            ),
        };
        STAGE.store(4, Ordering::Relaxed);
        let nc = e.as_netflow_common().map(|c| c.flowsets.len() as u64).unwrap_or(u64::MAX);
        STAGE.store(5, Ordering::Relaxed);
        let mut cw = CountWriter(0);
        let ok = serde_json::to_writer(&mut cw, e).is_ok();
        acc.push(tag);
        acc.push(n);
        acc.push(nc);
        acc.push(cw.0 ^ ((ok as u64) << 63));
    }
}
struct CountWriter(u64);
impl std::io::Write for CountWriter {
    fn write(&mut self, b: &[u8]) -> std::io::Result<usize> {
        self.0 += b.len() as u64;
        Ok(b.len())
    }
    fn flush(&mut self) -> std::io::Result<()> {
        Ok(())
    }
}

const WIDE: [u16; 7] = [5, 7, 9, 10, 0, 6, 11];

pub fn exercise(case: &Case, _idx: u64) -> Obs {
    let mut acc: Vec<u64> = vec![];
    for allowed in [None, Some(&WIDE[..])] {
        let mut p = new_parser(allowed);
        STAGE.store(1, Ordering::Relaxed);
        for h in &case.prior {
            let r = p.parse_bytes(h);
            post(&r, &mut vec![]);
            STAGE.store(1, Ordering::Relaxed);
        }
        STAGE.store(2, Ordering::Relaxed);
        let r = p.parse_bytes(&case.input);
        post(&r, &mut acc);
        drop(r);
        let mut p2 = new_parser(allowed);
        STAGE.store(1, Ordering::Relaxed);
        for h in &case.prior {
            p2.parse_bytes(h);
        }
        STAGE.store(6, Ordering::Relaxed);
        acc.push(p2.parse_bytes_as_netflow_common_flowsets(&case.input).len() as u64);
    }
    STAGE.store(0, Ordering::Relaxed);
    Obs { key: h64(&acc) | 1, panic: None, meas: vec![], issues: vec![] }
}

/// the list of families of this property, identical in parent and worker
pub fn families(tier: &str, profile: &str) -> Vec<(Arc<dyn Family>, Option<Vec<(String, usize)>>)> {
    let thorough = tier == "thorough";
    let mut v: Vec<(Arc<dyn Family>, Option<Vec<(String, usize)>>)> = vec![];
    if profile == "dev" {
        let (f, labels) = ladder_family(if thorough { None } else { Some(5) }, true);
        v.push((f, Some(labels)));
        // overflow checks are on in this profile: arithmetic on length/count fields is exercised through a
        // reduced grammar product, the truncations and the structural deviations
        let body = if thorough { 16 } else { 3 };
        v.push((family_a_v9(body), None));
        v.push((family_a_ipfix(body), None));
        v.push((family_b_trunc(all_seeds(true, 100_000), 3), None));
        v.push((family_b_struct(), None));
        v.push((family_b1(conformant_seeds(), if thorough { 2 } else { 1 }), None));
        if thorough {
            v.push((family_e(false), None));
            v.push((family_e(true), None));
        }
        return v;
    }
    let body = if thorough { 40 } else { 16 };
    v.push((family_a_v9(body), None));
    v.push((family_a_ipfix(body), None));
    let seeds = all_seeds(true, if thorough { 100_000 } else { 200 });
    v.push((family_b1(seeds.clone(), if thorough { 5 } else { 3 }), None));
    v.push((family_b_trunc(all_seeds(true, 100_000), 3), None));
    v.push((family_b_struct(), None));
    v.push((family_d(), None));
    v.push((family_e(false), None));
    v.push((family_e(true), None));
    v.push((family_a2(false, if thorough { 24 } else { 8 }), None));
    v.push((family_a2(true, if thorough { 24 } else { 8 }), None));
    let (f, labels) = ladder_family(if thorough { None } else { Some(8) }, false);
    v.push((f, Some(labels)));
    if thorough {
        v.push((family_b2(conformant_seeds()), None));
    }
    v
}

fn classify(how: &str) -> &'static str {
    if how.starts_with("hang") {
        "hang"
    } else if how.starts_with("signal 6") || how.starts_with("signal 11") {
        "abort-or-stack-overflow"
    } else {
        "abnormal-exit"
    }
}
/// reduce a panic message to its stable part (stage + location + message kind)
fn panic_sig(msg: &str) -> String {
    let m: String = msg.chars().map(|c| if c.is_ascii_digit() { '#' } else { c }).collect();
    let m = m.replace(' ', "-");
    m.chars().take(110).collect()
}

struct SweepSpace {
    cfg: SweepCfg,
    fam: Arc<dyn Family>,
    labels: Option<Vec<(String, usize)>>,
    profile: String,
}
impl SweepSpace {
    fn where_(&self, idx: u64) -> String {
        match &self.labels {
            Some(l) => l[idx as usize].0.clone(),
            None => self.fam.name().split('(').next().unwrap_or("").to_string(),
        }
    }
    fn issues_of(&self, r: &SweepResult) -> BTreeMap<String, (u64, u64, String)> {
        let mut m: BTreeMap<String, (u64, u64, String)> = BTreeMap::new();
        let mut add = |sig: String, idx: u64, detail: String| {
            let e = m.entry(sig).or_insert((0, u64::MAX, String::new()));
            e.0 += 1;
            if idx < e.1 {
                e.1 = idx;
                e.2 = detail;
            }
        };
        for (idx, msg) in &r.panics {
            add(format!("{}/panic/{}/{}", self.profile, self.where_(*idx), panic_sig(msg)), *idx, format!("panic: {}", msg));
        }
        for f in &r.fatals {
            let extra = self.labels.as_ref().map(|l| format!(" (n = {})", l[f.idx as usize].1)).unwrap_or_default();
            add(format!("{}/{}/{}", self.profile, classify(&f.how), self.where_(f.idx)), f.idx, format!("worker died: {}{}", f.how, extra));
        }
        m
    }
}
impl Space for SweepSpace {
    fn name(&self) -> String {
        format!("{}:{}", self.profile, self.fam.name())
    }
    fn size(&self) -> u64 {
        self.fam.size()
    }
    fn eval(&self, idx: u64) -> Eval {
        let r = run_range(&self.cfg, &self.fam.name(), idx, idx + 1);
        Eval { key: 0, transitions: 0, issues: self.issues_of(&r).into_iter().map(|(s, (_, _, d))| issue(s, d)).collect(), tags: vec![] }
    }
    fn describe(&self, idx: u64) -> Value {
        let mut d = self.fam.case(idx).describe();
        d["profile"] = json!(self.profile);
        d["thread_stack_bytes"] = json!(STACK);
        if let Some(l) = &self.labels {
            d["rung"] = json!(l[idx as usize].0);
            d["n"] = json!(l[idx as usize].1);
        }
        d
    }
}

/// the spaces of this property without running them (for `nfmc replay`)
pub fn replay_spaces(tier: &str) -> Vec<Box<dyn Space>> {
    let release = std::env::current_exe().unwrap().to_string_lossy().to_string();
    let dev = release.replace("/release/", "/debug/");
    let mut v: Vec<Box<dyn Space>> = vec![];
    for (profile, binary) in [("release", release), ("dev", dev)] {
        for (fi, (fam, labels)) in families(tier, profile).into_iter().enumerate() {
            let cfg = SweepCfg { binary: binary.clone(), mode: format!("c01-{}", profile), tier: tier.to_string(), family_index: fi, workers: 1, horizon: Duration::from_secs(180), budget: 2 << 30, chunk: 1 };
            v.push(Box::new(SweepSpace { cfg, fam, labels, profile: profile.to_string() }));
        }
    }
    v
}

pub fn run(tier: &str) -> i32 {
    let t0 = Instant::now();
    let known = Known::load();
    let mut spaces: Vec<Box<dyn Space>> = vec![];
    let mut results = vec![];
    let mut membudget_total = 0u64;
    let exe = std::env::current_exe().unwrap();
    let release = exe.to_string_lossy().to_string();
    let dev = release.replace("/release/", "/debug/");
    let mut profiles = vec![("release", release)];
    if std::path::Path::new(&dev).exists() {
        profiles.push(("dev", dev));
    } else {
        eprintln!("MACHINERY: dev-profile harness binary {} is missing", dev);
        return 2;
    }
    for (profile, binary) in profiles {
        for (fi, (fam, labels)) in families(tier, profile).into_iter().enumerate() {
            let size = fam.size();
            let cfg = SweepCfg {
                binary: binary.clone(),
                mode: format!("c01-{}", profile),
                tier: tier.to_string(),
                family_index: fi,
                workers: 16,
                horizon: Duration::from_secs(if profile == "dev" { 180 } else { 60 }),
                budget: 2 << 30,
                chunk: if labels.is_some() { 1 } else { (size / 256).clamp(1, 20_000) },
            };
            let r = run_range(&cfg, &fam.name(), 0, size);
            let sp = SweepSpace { cfg, fam, labels, profile: profile.to_string() };
            let issues = sp.issues_of(&r);
            eprintln!("[C01] {:<8} {:<60} size={:<9} evaluated={:<9} distinct={:<8} panics={} fatal={} membudget={} {:.1}s", profile, r.name, r.size, r.evaluated, r.keys.len(), r.panics.len(), r.fatals.len(), r.membudget.len(), r.wall_s);
            if r.evaluated != size {
                eprintln!("MACHINERY: family {} evaluated {} of {}", r.name, r.evaluated, size);
                return 2;
            }
            membudget_total += r.membudget.len() as u64;
            let mut tags = BTreeMap::new();
            tags.insert("memory-budget-exceeded(C15's subject)", r.membudget.len() as u64);
            results.push(SpaceResult { name: sp.name(), size, evaluations: r.evaluated, transitions: r.evaluated * 2, keys: r.keys, tags, issues, wall_s: r.wall_s });
            spaces.push(Box::new(sp));
        }
    }
    let rep = Report {
        prop: "C01".into(),
        tier: tier.into(),
        level: "model_checking",
        rule: "every index of every family is executed in an isolated worker on a 2 MiB thread under catch_unwind (release build; the scale ladder also in the dev profile with overflow checks): grammar product with adversarial templates (A), every single-byte deviation x 256 values and every truncation of every seed under 3..5 cache states (B), structural deviations, all buffers of <= 2 bytes and <= 2-byte continuations of each version (D), the scale ladder up to the datagram limit (C); each case under the default and a widened allowed set; results are re-exported, converted and serialised. A case is distinct by the hash of (element kinds, set counts, export/JSON sizes)".into(),
        bounds: json!({"stack_bytes": STACK, "hang_horizon_s": 60, "live_heap_budget_bytes": 2u64<<30, "max_buffer": 65535, "deviation_bound": if tier=="thorough" {2} else {1}}),
        assumptions: vec!["a worker that makes no progress for 60 s is reported as a hang (the slowest legitimate input takes < 2 s)".into(), "exceeding the 2 GiB live-heap budget is counted as C15's subject, not a C01 violation".into()],
        trusted_base: vec!["sweep.rs attribution of abnormal worker exits to the index in flight".into()],
        required_tags: vec![],
        extra: [("memory_budget_exceeded".to_string(), json!(membudget_total))].into_iter().collect(),
    };
    finish(rep, &spaces, results, &known, t0)
}
