#!/bin/bash
# tools/verify_seed.sh <name> <dir with patch.diff, demo_*.rs, notes.md> <property> [checks...]
# Confirms in a scratch worktree of /repo that the change (a) keeps the existing suite passing, (b) makes the
# demonstration fail, (c) the demonstration passes without it; then runs the named checks against the change
# (default: the property's) on scratch copies, and files the seed under /verif/seeded/<name>/ with meta.json.
set -u
NAME=$1; SRC=$2; PROP=$3; shift 3; CHECKS="${*:-$PROP}"
W=/tmp/vseed_repo
rm -rf $W; git -C /repo worktree add -q $W HEAD || exit 2
export CARGO_TARGET_DIR=$W/target CARGO_NET_OFFLINE=true
DEMO=$(ls $SRC/demo_*.rs | head -1); DN=$(basename $DEMO .rs)
mkdir -p $W/tests && cp $DEMO $W/tests/
cd $W
without=FAIL; cargo test --offline ${DEMO_FLAGS:-} --test $DN >$W/demo_without.log 2>&1 && without=pass
git apply $SRC/patch.diff || { echo "patch does not apply"; cd /; git -C /repo worktree remove --force $W; exit 2; }
suite=FAIL; cargo test --workspace --no-fail-fast --offline --lib >$W/suite.log 2>&1 && cargo test --workspace --no-fail-fast --offline --doc >>$W/suite.log 2>&1 && suite=pass
npass=$(grep -E "^test result: ok" $W/suite.log | head -1 | sed -E 's/.* ([0-9]+) passed.*/\1/')
with=pass; cargo test --offline ${DEMO_FLAGS:-} --test $DN >$W/demo_with.log 2>&1 || with=FAIL
cd /verif
echo "seed $NAME: existing suite with change=$suite ($npass unit tests), demo with change=$with, demo without change=$without"
[ "$suite" = pass ] && [ "$with" = FAIL ] && [ "$without" = pass ] || { git -C /repo worktree remove --force $W; echo "seed $NAME REJECTED (does not meet the three conditions)"; exit 1; }
# run the checks against the change: the scratch worktree (change applied, demonstration removed) stands in for /repo,
# and a scratch copy of /verif whose harness depends on that worktree stands in for /verif - /repo itself and the
# evidence files, which describe the UNCHANGED tree, are never touched
unset CARGO_TARGET_DIR
rm -f $W/tests/$DN.rs
V=/tmp/vseed_verif; rm -rf $V; mkdir -p $V /tmp/vseed_target
rsync -a --exclude .git --exclude 'mc/target*' --exclude replays /verif/ $V/
sed -i "s#path = \"/repo\"#path = \"$W\"#" $V/mc/Cargo.toml
ln -s /tmp/vseed_target $V/mc/target
res=""; det=""
for id in $CHECKS; do
  out=$($V/check $id --tier quick 2>/dev/null); rc=$?
  if [ $rc -eq 1 ] && echo "$out" | grep -q "^VIOLATION property=$id "; then res="$res $id=DETECTED"; det="$det \"$id\","; else res="$res $id=MISSED(rc=$rc)"; fi
done
git -C /repo worktree remove --force $W; rm -rf $V
echo "seed $NAME: $res"
mkdir -p seeded/$NAME && cp $SRC/patch.diff seeded/$NAME/patch.diff && cp $DEMO seeded/$NAME/ && cp $SRC/notes.md seeded/$NAME/notes.md 2>/dev/null
python3 - "$NAME" "$PROP" "$res" "$suite" "$with" "$without" <<'PY'
import json,sys,re
name,prop,res,suite,w,wo=sys.argv[1:7]
notes=open(f'/verif/seeded/{name}/notes.md').read() if True else ''
det=[m for m in re.findall(r'(C\d+)=DETECTED',res)]
missed=[m for m in re.findall(r'(C\d+)=MISSED',res)]
meta={"breaks_property":prop,"origin":"independent sub-agent given only the property text and a scratch worktree",
 "needs_to_manifest":"see notes.md","confirmed":{"existing_suite_with_change":suite,"demo_with_change":w,"demo_without_change":wo,"how":"tools/verify_seed.sh in a scratch worktree of /repo (removed afterwards)"},
 "checks_run_against_repo_with_change_applied":res.strip(),"detected_by":det,"missed_by":missed}
json.dump(meta,open(f'/verif/seeded/{name}/meta.json','w'),indent=1)
PY
