//! C13 — the common-flow view is a faithful projection of what was decoded (E-ENUM).
use crate::alphabet::{list_at, list_count};
use crate::cform::*;
use crate::engine::*;
use crate::menu;
use crate::refmodel::*;
use crate::util::*;
use crate::wire::*;
use netflow_parser::netflow_common::NetflowCommonFlowSet;
use netflow_parser::{NetflowPacket, NetflowParser};
use serde_json::json;
use std::net::IpAddr;

/// canonical common flow: every member as an optional string
#[derive(Clone, PartialEq, Eq, Debug, Hash, Default)]
pub struct CFlow {
    pub src_addr: Option<String>,
    pub dst_addr: Option<String>,
    pub src_port: Option<u16>,
    pub dst_port: Option<u16>,
    pub protocol_number: Option<u8>,
    pub protocol_type: Option<String>,
    pub first_seen: Option<u32>,
    pub last_seen: Option<u32>,
    pub src_mac: Option<String>,
    pub dst_mac: Option<String>,
}
fn cflow(f: &NetflowCommonFlowSet) -> CFlow {
    CFlow {
        src_addr: f.src_addr.map(|a| a.to_string()),
        dst_addr: f.dst_addr.map(|a| a.to_string()),
        src_port: f.src_port,
        dst_port: f.dst_port,
        protocol_number: f.protocol_number,
        protocol_type: f.protocol_type.map(|p| format!("{:?}", p)),
        first_seen: f.first_seen,
        last_seen: f.last_seen,
        src_mac: f.src_mac.clone(),
        dst_mac: f.dst_mac.clone(),
    }
}

fn addr(v: &CVal) -> Option<String> {
    match v {
        CVal::Ip4(a) => Some(IpAddr::from(*a).to_string()),
        CVal::Ip6(a) => Some(IpAddr::from(*a).to_string()),
        _ => None,
    }
}
fn num(v: &CVal) -> Option<u64> {
    match v {
        CVal::U8(x) => Some(*x as u64),
        CVal::U16(x) => Some(*x as u64),
        CVal::U24(x) => Some(*x as u64),
        CVal::U32(x) => Some(*x as u64),
        CVal::U64(x) => Some(*x),
        CVal::Dur(s, n) => Some(s * 1000 + (*n as u64) / 1_000_000),
        _ => None,
    }
}

/// names of the projected members per protocol: (src4, src6, dst4, dst6, sport, dport, proto, first, last, smac, dmac)
const V9N: [&str; 11] = ["Ipv4SrcAddr", "Ipv6SrcAddr", "Ipv4DstAddr", "Ipv6DstAddr", "L4SrcPort", "L4DstPort", "Protocol", "FirstSwitched", "LastSwitched", "InSrcMac", "InDstMac"];
const IPN: [&str; 11] = ["SourceIpv4address", "SourceIpv6address", "DestinationIpv4address", "DestinationIpv6address", "SourceTransportPort", "DestinationTransportPort", "ProtocolIdentifier", "FlowStartSysUpTime", "FlowEndSysUpTime", "SourceMacaddress", "DestinationMacaddress"];
const SPECS: [(u16, u16); 11] = [(8, 4), (27, 16), (12, 4), (28, 16), (7, 2), (11, 2), (4, 1), (22, 4), (21, 4), (56, 6), (80, 6)];

/// projection of one decoded record (reference side)
fn project(rec: &[(String, CVal)], names: &[&str; 11], wire_protos: &mut dyn FnMut() -> Option<u8>) -> CFlow {
    let get = |n: &str| rec.iter().find(|(k, _)| k == n).map(|(_, v)| v);
    let proto_num: Option<u8> = match get(names[6]) {
        Some(CVal::U8(x)) => Some(*x),
        // the decoded V9 value is a name; the number that was on the wire comes from the generator
        Some(CVal::Proto(_)) => wire_protos(),
        _ => None,
    };
    CFlow {
        src_addr: get(names[0]).and_then(addr).or_else(|| get(names[1]).and_then(addr)),
        dst_addr: get(names[2]).and_then(addr).or_else(|| get(names[3]).and_then(addr)),
        src_port: get(names[4]).and_then(num).map(|x| x as u16),
        dst_port: get(names[5]).and_then(num).map(|x| x as u16),
        protocol_number: proto_num,
        // V9 decodes a protocol NAME (that is the decoded field); IPFIX decodes a number and the view derives the name
        protocol_type: match get(names[6]) {
            Some(CVal::Proto(name)) => Some(name.clone()),
            _ => proto_num.map(|n| netflow_parser::protocol::ProtocolTypes::from(n)).map(|p| format!("{:?}", p)),
        },
        first_seen: get(names[7]).and_then(num).map(|x| x as u32),
        last_seen: get(names[8]).and_then(num).map(|x| x as u32),
        src_mac: get(names[9]).and_then(|v| if let CVal::Mac(s) = v { Some(s.clone()) } else { None }),
        dst_mac: get(names[10]).and_then(|v| if let CVal::Mac(s) = v { Some(s.clone()) } else { None }),
    }
}

/// expected common view of one reference-decoded variable packet: one flow per data record, in order
fn expected_flows(pkt: &CVar, wire_protos: &mut dyn FnMut() -> Option<u8>) -> Vec<CFlow> {
    let names = if pkt.version == 9 { &V9N } else { &IPN };
    let mut out = vec![];
    for s in &pkt.sets {
        if let CBody::Data(flat, _, _) = &s.body {
            let mut rec: Vec<(String, CVal)> = vec![];
            for (k, n, v) in flat {
                if *k == 0 && !rec.is_empty() {
                    out.push(project(&rec, names, wire_protos));
                    rec.clear();
                }
                rec.push((n.clone(), v.clone()));
            }
            if !rec.is_empty() {
                out.push(project(&rec, names, wire_protos));
            }
        }
    }
    out
}

fn member_diff(e: &CFlow, g: &CFlow, proto: &str) -> Vec<Issue> {
    let mut v = vec![];
    macro_rules! m {
        ($f:ident) => {
            if e.$f != g.$f {
                let what = if g.$f.is_none() { "absent" } else if e.$f.is_none() { "invented" } else { "wrong" };
                v.push(issue(format!("{}/{}/{}", proto, stringify!($f), what), format!("expected {:?} got {:?}", e.$f, g.$f)));
            }
        };
    }
    m!(src_addr);
    m!(dst_addr);
    m!(src_port);
    m!(dst_port);
    if let (Some(n), None, "v9") = (e.protocol_number, g.protocol_number, proto) {
        if (145..=254).contains(&n) {
            // the decoded V9 value is the name Unknown: the number is not recoverable from it
            v.push(issue("v9/protocol_number/unnamed-number-absent", format!("expected {:?} got None", e.protocol_number)));
            return {
                let mut g2 = g.clone();
                g2.protocol_number = e.protocol_number;
                let mut rest = member_diff(e, &g2, proto);
                v.append(&mut rest);
                v
            };
        }
    }
    m!(protocol_number);
    m!(protocol_type);
    m!(first_seen);
    m!(last_seen);
    m!(src_mac);
    m!(dst_mac);
    v
}

/// judge a stream: every returned packet's common view against the projection of the reference decode
pub fn judge_stream(calls: &[Vec<u8>], protos_on_wire: &[u8]) -> Eval {
    let mut p = NetflowParser::default();
    let mut rc = RefCache::default();
    let mut issues = vec![];
    let mut keyacc = vec![];
    let mut pi = 0usize;
    let mut next_proto = || {
        let x = protos_on_wire.get(pi).cloned();
        pi += 1;
        x
    };
    for call in calls {
        let res = p.parse_bytes(call);
        let exp = ref_buffer(call, &mut rc).expect("C13 stream outside the reference domain");
        for (k, e) in res.iter().enumerate() {
            let common = e.as_netflow_common();
            match (e, exp.get(k)) {
                (NetflowPacket::Error(_), _) => {
                    if common.is_ok() {
                        issues.push(issue("error-converts-to-ok", "an error element converts to a common structure"));
                    }
                }
                (NetflowPacket::V9(_), Some(CPkt::Var(r))) | (NetflowPacket::IPFix(_), Some(CPkt::Var(r))) => {
                    let c = match common {
                        Ok(c) => c,
                        Err(_) => {
                            issues.push(issue("packet-converts-to-error", "a decoded packet converts to an error"));
                            continue;
                        }
                    };
                    let pn = if r.version == 9 { "v9" } else { "ipfix" };
                    let ts = r.hdr[1];
                    if c.version != r.version || c.timestamp as u64 != ts {
                        issues.push(issue(format!("{}/version-or-timestamp", pn), format!("expected ({}, {}) got ({}, {})", r.version, ts, c.version, c.timestamp)));
                    }
                    let ef = expected_flows(r, &mut next_proto);
                    let gf: Vec<CFlow> = c.flowsets.iter().map(cflow).collect();
                    keyacc.push(h64(&gf));
                    if ef.len() != gf.len() {
                        issues.push(issue(format!("{}/flow-count", pn), format!("expected {} flows (one per record) got {}", ef.len(), gf.len())));
                    } else {
                        for (a, b) in ef.iter().zip(gf.iter()) {
                            issues.extend(member_diff(a, b, pn));
                        }
                    }
                }
                _ => {}
            }
        }
    }
    issues.sort_by(|a, b| a.sig.cmp(&b.sig));
    issues.dedup_by(|a, b| a.sig == b.sig);
    Eval { key: h64(&keyacc) | 1, transitions: calls.len() as u64, issues, tags: vec![] }
}

fn judge_fixed(buf: &[u8]) -> Eval {
    let mut p = NetflowParser::default();
    let res = p.parse_bytes(buf);
    let exp = ref_buffer(buf, &mut RefCache::default()).expect("fixed buffer");
    let mut issues = vec![];
    let mut keyacc = vec![];
    for (k, e) in res.iter().enumerate() {
        let common = e.as_netflow_common();
        match (e, exp.get(k)) {
            (NetflowPacket::Error(_), _) => {
                if common.is_ok() {
                    issues.push(issue("error-converts-to-ok", "an error element converts to a common structure"));
                }
            }
            (_, Some(CPkt::Fixed(r))) => {
                let c = match common {
                    Ok(c) => c,
                    Err(_) => {
                        issues.push(issue("packet-converts-to-error", "a decoded packet converts to an error"));
                        continue;
                    }
                };
                let pn = format!("v{}", r.version);
                let hv = |n: &str| r.hdr.iter().find(|(k, _)| *k == n).map(|x| x.1).unwrap();
                if c.version != r.version || c.timestamp as u64 != hv("sys_up_time") {
                    issues.push(issue(format!("{}/version-or-timestamp", pn), format!("got ({}, {})", c.version, c.timestamp)));
                }
                if c.flowsets.len() != r.recs.len() {
                    issues.push(issue(format!("{}/flow-count", pn), format!("expected {} got {}", r.recs.len(), c.flowsets.len())));
                    continue;
                }
                // protocol name = the name the decoded record carries (what it should be is C03's subject)
                let decoded_names: Vec<String> = match e {
                    NetflowPacket::V5(x) => x.flowsets.iter().map(|s| format!("{:?}", s.protocol_type)).collect(),
                    NetflowPacket::V7(x) => x.flowsets.iter().map(|s| format!("{:?}", s.protocol_type)).collect(),
                    _ => vec![],
                };
                for (i, (rec, f)) in r.recs.iter().zip(c.flowsets.iter()).enumerate() {
                    let rv = |n: &str| rec.iter().find(|(k, _)| *k == n).map(|x| x.1).unwrap();
                    let e = CFlow {
                        src_addr: Some(IpAddr::from((rv("src_addr") as u32).to_be_bytes()).to_string()),
                        dst_addr: Some(IpAddr::from((rv("dst_addr") as u32).to_be_bytes()).to_string()),
                        src_port: Some(rv("src_port") as u16),
                        dst_port: Some(rv("dst_port") as u16),
                        protocol_number: Some(rv("protocol_number") as u8),
                        protocol_type: Some(decoded_names[i].clone()),
                        first_seen: Some(rv("first") as u32),
                        last_seen: Some(rv("last") as u32),
                        src_mac: None,
                        dst_mac: None,
                    };
                    let g = cflow(f);
                    keyacc.push(h64(&g));
                    issues.extend(member_diff(&e, &g, &pn));
                }
            }
            _ => {}
        }
    }
    issues.sort_by(|a, b| a.sig.cmp(&b.sig));
    issues.dedup_by(|a, b| a.sig == b.sig);
    Eval { key: h64(&keyacc) | 1, transitions: 1, issues, tags: vec![] }
}

/// the flattening helper equals the in-order concatenation of the flows of all non-error packets
fn judge_helper(prior: &[Vec<u8>], buf: &[u8]) -> Eval {
    let mut p1 = NetflowParser::default();
    let mut p2 = NetflowParser::default();
    for c in prior {
        p1.parse_bytes(c);
        p2.parse_bytes(c);
    }
    let res = p1.parse_bytes(buf);
    let mut exp: Vec<CFlow> = vec![];
    for e in &res {
        if let Ok(c) = e.as_netflow_common() {
            exp.extend(c.flowsets.iter().map(cflow));
        }
    }
    let got: Vec<CFlow> = p2.parse_bytes_as_netflow_common_flowsets(buf).iter().map(cflow).collect();
    let mut issues = vec![];
    if exp != got {
        issues.push(issue("flattening-helper-differs-from-concatenation", format!("{} flows expected, {} returned (or order/content differs)", exp.len(), got.len())));
    }
    if snap(&p1) != snap(&p2) {
        issues.push(issue("flattening-helper-leaves-different-caches", "caches differ from parse_bytes on the same buffer"));
    }
    let mut tags = vec![];
    if exp.len() > 1 && res.len() > 1 {
        tags.push("helper-over-several-packets");
    }
    Eval { key: h64(&got) | 1, transitions: 2, issues, tags }
}

/// template with the projected fields selected by `mask` (src/dst address each in {absent, v4, v6, both}), in order `ord`
fn subset_fields(sa: u64, da: u64, mask: u64, ord: u64) -> Vec<FieldSpec> {
    let mut f: Vec<FieldSpec> = vec![fs(1, 4)];
    let mut push = |i: usize| f.push(fs(SPECS[i].0, SPECS[i].1));
    if sa & 1 == 1 {
        push(0);
    }
    if sa & 2 == 2 {
        push(1);
    }
    if da & 1 == 1 {
        push(2);
    }
    if da & 2 == 2 {
        push(3);
    }
    for b in 0..7 {
        if (mask >> b) & 1 == 1 {
            push(4 + b);
        }
    }
    f.push(fs(2, 2));
    match ord {
        1 => f.reverse(),
        2 => {
            let n = f.len();
            f.rotate_left(n / 2);
        }
        _ => {}
    }
    f
}

fn subset_stream(ipfix: bool, i: u64) -> (Vec<Vec<u8>>, Vec<u8>) {
    let d = digits(i, &[4, 4, 128, 3, 3, 2]);
    let fields = subset_fields(d[0], d[1], d[2], d[3]);
    let nrec = d[4] as usize + 1;
    let nsets = d[5] as usize + 1;
    let mut protos = vec![];
    let mut bodies = vec![];
    for s in 0..nsets {
        let mut b = vec![];
        for r in 0..nrec {
            for (k, f) in fields.iter().enumerate() {
                if f.ty == 4 {
                    let pv = [6u8, 17, 1, 47, 0, 144, 58, 255, 200][(r + s * 3 + i as usize) % 9];
                    protos.push(pv);
                    b.push(pv);
                } else {
                    b.extend(crate::alphabet::rec_value(r + s * 4, k, f.len as usize));
                }
            }
        }
        bodies.push(b);
    }
    let calls = if ipfix {
        let mut sets = vec![IpfixSet::Tpl(vec![IpfixTpl { id: 256, fields }], 0)];
        sets.extend(bodies.into_iter().map(|b| IpfixSet::Data(256, b)));
        vec![ipfix_message(&IpfixMsg::new(sets))]
    } else {
        let mut sets = vec![V9Set::Tpl(vec![V9Tpl { id: 256, fields }], 0)];
        sets.extend(bodies.into_iter().map(|b| V9Set::Data(256, b)));
        vec![v9_packet(&V9Pkt::new(sets))]
    };
    (calls, protos)
}

/// two templates in one packet: the full projected set (id 256) and a subset (id 257); data for both, either order —
/// a later record lacks members an earlier record of the same packet had
fn two_template_stream(ipfix: bool, i: u64) -> (Vec<Vec<u8>>, Vec<u8>) {
    let d = digits(i, &[4, 4, 128, 2, 2]);
    let full = subset_fields(3, 3, 127, 0);
    let sub = subset_fields(d[0], d[1], d[2], 0);
    let mut protos_a = vec![];
    let mut protos_b = vec![];
    let body = |fields: &[FieldSpec], salt: usize, protos: &mut Vec<u8>| -> Vec<u8> {
        let mut b = vec![];
        for r in 0..2 {
            for (k, f) in fields.iter().enumerate() {
                if f.ty == 4 {
                    let pv = [6u8, 17, 1, 47][(r + salt) % 4];
                    protos.push(pv);
                    b.push(pv);
                } else {
                    b.extend(crate::alphabet::rec_value(r + salt, k, f.len as usize));
                }
            }
        }
        b
    };
    let ba = body(&full, 1, &mut protos_a);
    let bb = body(&sub, 9, &mut protos_b);
    let a_first = d[3] == 0;
    let protos: Vec<u8> = if a_first { protos_a.into_iter().chain(protos_b).collect() } else { protos_b.into_iter().chain(protos_a).collect() };
    let same_call = d[4] == 0;
    let calls = if ipfix {
        let t = vec![IpfixSet::Tpl(vec![IpfixTpl { id: 256, fields: full }], 0), IpfixSet::Tpl(vec![IpfixTpl { id: 257, fields: sub }], 0)];
        let (da, db) = (IpfixSet::Data(256, ba), IpfixSet::Data(257, bb));
        let data = if a_first { vec![da, db] } else { vec![db, da] };
        if same_call {
            vec![ipfix_message(&IpfixMsg::new(t.into_iter().chain(data).collect()))]
        } else {
            vec![ipfix_message(&IpfixMsg::new(t)), ipfix_message(&IpfixMsg::new(data))]
        }
    } else {
        let t = vec![V9Set::Tpl(vec![V9Tpl { id: 256, fields: full }, V9Tpl { id: 257, fields: sub }], 0)];
        let (da, db) = (V9Set::Data(256, ba), V9Set::Data(257, bb));
        let data = if a_first { vec![da, db] } else { vec![db, da] };
        if same_call {
            vec![v9_packet(&V9Pkt::new(t.into_iter().chain(data).collect()))]
        } else {
            vec![v9_packet(&V9Pkt::new(t)), v9_packet(&V9Pkt::new(data))]
        }
    };
    (calls, protos)
}

fn single_field_stream(ipfix: bool, i: u64) -> (Vec<Vec<u8>>, Vec<u8>) {
    let which = (i % 11) as usize;
    let nrec = (i / 11) as usize + 1;
    let f = fs(SPECS[which].0, SPECS[which].1);
    let mut protos = vec![];
    let mut body = vec![];
    for r in 0..nrec {
        if f.ty == 4 {
            let pv = [6u8, 17, 1, 47][r % 4];
            protos.push(pv);
            body.push(pv);
        } else {
            body.extend(crate::alphabet::rec_value(r, 0, f.len as usize));
        }
    }
    let calls = if ipfix {
        vec![ipfix_message(&IpfixMsg::new(vec![IpfixSet::Tpl(vec![IpfixTpl { id: 256, fields: vec![f] }], 0), IpfixSet::Data(256, body)]))]
    } else {
        vec![v9_packet(&V9Pkt::new(vec![V9Set::Tpl(vec![V9Tpl { id: 256, fields: vec![f] }], 0), V9Set::Data(256, body)]))]
    };
    (calls, protos)
}

/// one projected field (index `which` of SPECS) holds all-zero / all-ones in record 1; record 0 is byte-distinct
fn boundary_stream(ipfix: bool, i: u64) -> (Vec<Vec<u8>>, Vec<u8>) {
    let d = digits(i, &[11, 2, 3]);
    let which = d[0] as usize;
    let target = fs(SPECS[which].0, SPECS[which].1);
    let fields: Vec<FieldSpec> = match d[2] {
        0 => subset_fields(3, 3, 127, 0),
        1 => {
            // without the IPv6 (or, if the target is an IPv6 field, without the IPv4) counterpart
            let (sa, da) = if which == 1 || which == 3 { (2, 2) } else { (1, 1) };
            subset_fields(sa, da, 127, 0)
        }
        _ => vec![target, fs(2, 2)],
    };
    let mut protos = vec![];
    let mut body = vec![];
    for r in 0..2 {
        for (k, f) in fields.iter().enumerate() {
            let w = f.len as usize;
            let mut val = if f.ty == 4 { vec![[6u8, 17][r]] } else { crate::alphabet::rec_value(r, k, w) };
            if r == 1 && *f == target {
                val = vec![if d[1] == 0 { 0 } else { 0xff }; w];
            }
            if f.ty == 4 {
                protos.push(val[0]);
            }
            body.extend(val);
        }
    }
    let calls = if ipfix {
        vec![ipfix_message(&IpfixMsg::new(vec![IpfixSet::Tpl(vec![IpfixTpl { id: 256, fields }], 0), IpfixSet::Data(256, body)]))]
    } else {
        vec![v9_packet(&V9Pkt::new(vec![V9Set::Tpl(vec![V9Tpl { id: 256, fields }], 0), V9Set::Data(256, body)]))]
    };
    (calls, protos)
}

/// one packet = a sequence of <= 4 sets over {T256 (full projected template), T257 (addresses and ports), D256, D257,
/// OT258, OD258}: data sets before, between and behind template / options sets; `cached`: the three definitions were
/// delivered by an earlier call
fn interleaved_stream(ipfix: bool, i: u64) -> (Vec<Vec<u8>>, Vec<u8>) {
    let nl = list_count(6, 4);
    let seq = list_at(6, 4, i % nl);
    let cached = i / nl == 1;
    let full = subset_fields(1, 1, 127, 0);
    let sub = subset_fields(1, 1, 3, 1);
    let mut protos = vec![];
    let body = |fields: &[FieldSpec], salt: usize, nrec: usize, protos: &mut Vec<u8>| -> Vec<u8> {
        let mut b = vec![];
        for r in 0..nrec {
            for (k, f) in fields.iter().enumerate() {
                if f.ty == 4 {
                    let pv = [6u8, 17, 1, 47][(r + salt) % 4];
                    protos.push(pv);
                    b.push(pv);
                } else {
                    b.extend(crate::alphabet::rec_value(r + salt, k, f.len as usize));
                }
            }
        }
        b
    };
    // which definitions are in force when a data set is reached
    let (mut has256, mut has257) = (cached, cached);
    let mut v9sets = vec![];
    let mut ipsets = vec![];
    for (pos, k) in seq.iter().enumerate() {
        match k {
            0 => {
                has256 = true;
                v9sets.push(V9Set::Tpl(vec![V9Tpl { id: 256, fields: full.clone() }], 0));
                ipsets.push(IpfixSet::Tpl(vec![IpfixTpl { id: 256, fields: full.clone() }], 0));
            }
            1 => {
                has257 = true;
                v9sets.push(V9Set::Tpl(vec![V9Tpl { id: 257, fields: sub.clone() }], 0));
                ipsets.push(IpfixSet::Tpl(vec![IpfixTpl { id: 257, fields: sub.clone() }], 0));
            }
            2 | 3 => {
                let (id, fields, known) = if *k == 2 { (256u16, &full, has256) } else { (257u16, &sub, has257) };
                // data for a template the packet has not defined yet would end a V9 packet in an error: leave it out
                if !known {
                    continue;
                }
                let mut throwaway = vec![];
                let b = body(fields, pos * 3 + 1, 2, if known { &mut protos } else { &mut throwaway });
                v9sets.push(V9Set::Data(id, b.clone()));
                ipsets.push(IpfixSet::Data(id, b));
            }
            4 => {
                v9sets.push(V9Set::OptTpl(vec![V9OptTpl { id: 258, scope: vec![fs(1, 4)], opts: vec![fs(34, 4)] }], 0));
                ipsets.push(IpfixSet::OptTpl(vec![IpfixOptTpl { id: 258, scope_count: 1, fields: vec![fs(149, 4), fs(41, 4)] }], 0));
            }
            _ => {
                if !cached && !seq[..pos].contains(&4) {
                    continue;
                }
                let b: Vec<u8> = (0..8).map(|j| fill(pos + 60, j)).collect();
                v9sets.push(V9Set::Data(258, b.clone()));
                ipsets.push(IpfixSet::Data(258, b));
            }
        }
    }
    let mut calls = vec![];
    if cached {
        if ipfix {
            calls.push(ipfix_message(&IpfixMsg::new(vec![IpfixSet::Tpl(vec![IpfixTpl { id: 256, fields: full.clone() }], 0), IpfixSet::Tpl(vec![IpfixTpl { id: 257, fields: sub.clone() }], 0), IpfixSet::OptTpl(vec![IpfixOptTpl { id: 258, scope_count: 1, fields: vec![fs(149, 4), fs(41, 4)] }], 0)])));
        } else {
            calls.push(v9_packet(&V9Pkt::new(vec![V9Set::Tpl(vec![V9Tpl { id: 256, fields: full.clone() }, V9Tpl { id: 257, fields: sub.clone() }], 0), V9Set::OptTpl(vec![V9OptTpl { id: 258, scope: vec![fs(1, 4)], opts: vec![fs(34, 4)] }], 0)])));
        }
    }
    calls.push(if ipfix { ipfix_message(&IpfixMsg::new(ipsets)) } else { v9_packet(&V9Pkt::new(v9sets)) });
    (calls, protos)
}

/// elements that RESEMBLE a projected one but are not it (absolute and delta times, post-NAT addresses and ports,
/// post-MACs, ICMP / IGMP types, transport-specific ports): they never feed the view
const DISTRACTORS: [(u16, u16); 18] = [(150, 4), (151, 4), (152, 8), (153, 8), (154, 8), (155, 8), (225, 4), (226, 4), (227, 2), (228, 2), (57, 6), (81, 6), (180, 2), (181, 2), (182, 2), (183, 2), (32, 2), (176, 1)];

/// shape 0: the distractor alone (with one unrelated field); 1: the full projected template with the distractor behind
/// it; 2: the distractor in front of the full projected template
fn distractor_stream(ipfix: bool, i: u64) -> (Vec<Vec<u8>>, Vec<u8>) {
    let d = digits(i, &[DISTRACTORS.len() as u64, 3]);
    let x = fs(DISTRACTORS[d[0] as usize].0, DISTRACTORS[d[0] as usize].1);
    let full = subset_fields(1, 1, 127, 0);
    let fields: Vec<FieldSpec> = match d[1] {
        0 => vec![x, fs(2, 2)],
        1 => full.iter().cloned().chain([x]).collect(),
        _ => [x].into_iter().chain(full.iter().cloned()).collect(),
    };
    let mut protos = vec![];
    let mut body = vec![];
    for r in 0..2 {
        for (k, f) in fields.iter().enumerate() {
            if f.ty == 4 {
                let pv = [6u8, 17][r];
                protos.push(pv);
                body.push(pv);
            } else {
                body.extend(crate::alphabet::rec_value(r + 2, k, f.len as usize));
            }
        }
    }
    let calls = if ipfix {
        vec![ipfix_message(&IpfixMsg::new(vec![IpfixSet::Tpl(vec![IpfixTpl { id: 256, fields }], 0), IpfixSet::Data(256, body)]))]
    } else {
        vec![v9_packet(&V9Pkt::new(vec![V9Set::Tpl(vec![V9Tpl { id: 256, fields }], 0), V9Set::Data(256, body)]))]
    };
    (calls, protos)
}

/// value menu of projected field `which` (class menu of alphabet.rs: thresholds, special addresses, all 256 protocols)
fn menu_values(ipfix: bool, which: usize) -> Vec<Vec<u8>> {
    let f = fs(SPECS[which].0, SPECS[which].1);
    let c = if ipfix { class_ipfix(&f) } else { class_v9(f.ty) };
    crate::alphabet::values(c, f.len as usize)
}
const MENU_MAX: u64 = 256;

/// record 1 of a two-record data set holds value `vi` of the menu in projected field `which`; three template shapes
fn value_stream(ipfix: bool, i: u64) -> Option<(Vec<Vec<u8>>, Vec<u8>)> {
    let d = digits(i, &[11, MENU_MAX, 3]);
    let which = d[0] as usize;
    let vals = menu_values(ipfix, which);
    let value = vals.get(d[1] as usize)?.clone();
    let target = fs(SPECS[which].0, SPECS[which].1);
    let fields: Vec<FieldSpec> = match d[2] {
        0 => subset_fields(3, 3, 127, 0),
        1 => {
            let (sa, da) = if which == 1 || which == 3 { (2, 2) } else { (1, 1) };
            subset_fields(sa, da, 127, 1)
        }
        _ => vec![target, fs(2, 2)],
    };
    let mut protos = vec![];
    let mut body = vec![];
    for r in 0..2 {
        for (k, f) in fields.iter().enumerate() {
            let w = f.len as usize;
            let mut val = if f.ty == 4 { vec![[6u8, 17][r]] } else { crate::alphabet::rec_value(r, k, w) };
            if r == 1 && *f == target {
                val = value.clone();
            }
            if f.ty == 4 {
                protos.push(val[0]);
            }
            body.extend(val);
        }
    }
    let calls = if ipfix {
        vec![ipfix_message(&IpfixMsg::new(vec![IpfixSet::Tpl(vec![IpfixTpl { id: 256, fields }], 0), IpfixSet::Data(256, body)]))]
    } else {
        vec![v9_packet(&V9Pkt::new(vec![V9Set::Tpl(vec![V9Tpl { id: 256, fields }], 0), V9Set::Data(256, body)]))]
    };
    Some((calls, protos))
}

pub fn spaces(tier: &str) -> Vec<Box<dyn Space>> {
    let thorough = tier == "thorough";
    let mut v: Vec<Box<dyn Space>> = vec![];
    // V5/V7: C03's buffer spaces (walking byte, all 16-bit values, thresholds, every count, all protocol numbers)
    v.extend(super::c03::buffers(tier).into_iter().filter(|g| thorough || !g.name.contains("all-counts-over")).map(|g| g.into_space(judge_fixed)));
    for ipfix in [false, true] {
        let n = 4 * 4 * 128 * 3 * 3 * 2;
        v.push(space(
            &format!("{}-every-subset-of-projected-fields x 3 orders x 1..3 records x 1..2 data sets", if ipfix { "ipfix" } else { "v9" }),
            n,
            move |i| {
                let (calls, protos) = subset_stream(ipfix, i);
                judge_stream(&calls, &protos)
            },
            move |i| super::stream::desc_calls(&subset_stream(ipfix, i).0),
        ));
    }
    for ipfix in [false, true] {
        let n = 4 * 4 * 128 * 2 * 2;
        v.push(space(
            &format!("{}-full-template-and-every-subset-template-in-one-packet x 2 orders x 2 deliveries", if ipfix { "ipfix" } else { "v9" }),
            n,
            move |i| {
                let (calls, protos) = two_template_stream(ipfix, i);
                judge_stream(&calls, &protos)
            },
            move |i| super::stream::desc_calls(&two_template_stream(ipfix, i).0),
        ));
    }
    // single-field templates: each projected field alone, 1..=4 records (a record is then one field: record grouping
    // cannot lean on the field index changing)
    for ipfix in [false, true] {
        v.push(space(
            &format!("{}-single-field-templates x 1..=4 records", if ipfix { "ipfix" } else { "v9" }),
            11 * 4,
            move |i| {
                let (calls, protos) = single_field_stream(ipfix, i);
                judge_stream(&calls, &protos)
            },
            move |i| super::stream::desc_calls(&single_field_stream(ipfix, i).0),
        ));
    }
    // boundary values of every projected field: all-zero and all-ones, in the full template, in a template without the
    // other address family, and alone
    for ipfix in [false, true] {
        v.push(space(
            &format!("{}-boundary-values-of-projected-fields", if ipfix { "ipfix" } else { "v9" }),
            11 * 2 * 3,
            move |i| {
                let (calls, protos) = boundary_stream(ipfix, i);
                judge_stream(&calls, &protos)
            },
            move |i| super::stream::desc_calls(&boundary_stream(ipfix, i).0),
        ));
    }
    // look-alike elements that must not feed the view
    for ipfix in [false, true] {
        v.push(space(
            &format!("{}-look-alike-elements x 3 template shapes", if ipfix { "ipfix" } else { "v9" }),
            DISTRACTORS.len() as u64 * 3,
            move |i| {
                let (calls, protos) = distractor_stream(ipfix, i);
                judge_stream(&calls, &protos)
            },
            move |i| super::stream::desc_calls(&distractor_stream(ipfix, i).0),
        ));
    }
    // data sets before, between and behind template / options-template / options-data sets of the same packet
    for ipfix in [false, true] {
        let n = list_count(6, 4) * 2;
        v.push(space(
            &format!("{}-interleaved-set-sequences<=4-over-6-set-menu x templates in the packet / cached", if ipfix { "ipfix" } else { "v9" }),
            n,
            move |i| {
                let (calls, protos) = interleaved_stream(ipfix, i);
                judge_stream(&calls, &protos)
            },
            move |i| super::stream::desc_calls(&interleaved_stream(ipfix, i).0),
        ));
    }
    // every value of the class menus (range thresholds, special-purpose addresses, all 256 protocol numbers) in every
    // projected field, in three template shapes
    for ipfix in [false, true] {
        v.push(space(
            &format!("{}-value-menu-of-every-projected-field x 3 template shapes", if ipfix { "ipfix" } else { "v9" }),
            11 * MENU_MAX * 3,
            move |i| match value_stream(ipfix, i) {
                Some((calls, protos)) => judge_stream(&calls, &protos),
                None => Eval { key: 0, transitions: 0, issues: vec![], tags: vec![] },
            },
            move |i| match value_stream(ipfix, i) {
                Some((calls, _)) => super::stream::desc_calls(&calls),
                None => json!({"unused_index": i}),
            },
        ));
    }
    // flattening helper over chained buffers
    let maxlen = if thorough { 5 } else { 3 };
    let nl = list_count(menu::SELF_DELIMITING + 1, maxlen);
    v.push(space(
        &format!("flattening-helper: chains<={} over 18-packet menu x 4 prior states", maxlen),
        nl * 4,
        move |i| {
            let seq = list_at(menu::SELF_DELIMITING + 1, maxlen, i % nl);
            judge_helper(&menu::prior_state((i / nl) as usize), &menu::chain(&seq))
        },
        move |i| {
            let seq = list_at(menu::SELF_DELIMITING + 1, maxlen, i % nl);
            json!({"buffer": seq.iter().map(|k| menu::NAMES[*k]).collect::<Vec<_>>(), "buffer_hex": hex(&menu::chain(&seq)), "prior_calls": menu::prior_state((i / nl) as usize).iter().map(|c| hex(c)).collect::<Vec<_>>()})
        },
    ));
    v
}

pub fn run(tier: &str) -> i32 {
    let rep = Report {
        prop: "C13".into(),
        tier: tier.into(),
        level: "model_checking",
        rule: "V5/V7: walking byte over a 3-record packet and every materialised record count; V9 and IPFIX: templates made of EVERY subset of the projected fields (source/destination address each in {absent, IPv4, IPv6, both}, ports, protocol, first, last, two MACs = 2048 subsets) in three orders with two unrelated fields, 1..=3 records, 1..=2 data sets; 18 look-alike elements (absolute and delta times, post-NAT addresses and ports, post-MACs, transport-specific ports) alone, behind and in front of the full projected template; every sequence of <= 4 sets over {two templates, data for each, options template, options data} in one packet (data sets before, between and behind the others; definitions in the packet or cached); every value of the class value menus (range thresholds, special-purpose addresses, all 256 protocol numbers) in every projected field in three template shapes; flattening helper over all chains of <=3 (thorough 5) packets of a 18-packet menu x 4 prior cache states. Oracle: projection computed from the reference decode (one flow per record, in order, member = decoded field, None iff the template lacks it). Distinct by the hash of the returned flows".into(),
        bounds: json!({"subsets": 2048, "orders": 3, "records": "1..=3", "data_sets": "1..=2"}),
        assumptions: vec!["when a record carries both an IPv4 and an IPv6 address of the same direction the IPv4 one is projected".into(), "V5/V7 protocol name = the name the decoded record carries (its correctness is C03's subject)".into()],
        trusted_base: vec!["refmodel.rs".into(), "c13::project".into()],
        required_tags: vec!["helper-over-several-packets"],
        extra: Default::default(),
    };
    run_report(rep, spaces(tier))
}
