#!/bin/bash
# tools/selftest_par.sh [-j K] [--tests] [pattern]
# The same demonstration as tools/selftest.sh, but on K scratch copies (a git worktree of /repo + a copy of /verif whose
# harness depends on that worktree) under /tmp, so that /repo itself is never touched and the copies work side by
# side.  Every copy is removed at the end.  Not a registered command: nothing in MANIFEST.json needs it.
set -u
K=4; TESTS=0; PAT=""
while [ $# -gt 0 ]; do case "$1" in -j) K=$2; shift 2;; --tests) TESTS=1; shift;; *) PAT="$1"; shift;; esac; done
cd /verif
LIST=$(for p in mutants/*.patch seeded/*/patch.diff; do case "$p" in *"$PAT"*) echo $p;; esac; done)
N=$(echo "$LIST" | wc -l)
OUT=/verif/mc/target/selftest_par; rm -rf $OUT; mkdir -p $OUT
worker() {
  k=$1; R=/tmp/st_$k
  rm -rf $R; mkdir -p $R
  git -C /repo worktree add -q --detach $R/repo HEAD || exit 2
  rsync -a --exclude .git --exclude 'mc/target*' --exclude replays /verif/ $R/verif/
  sed -i "s#path = \"/repo\"#path = \"$R/repo\"#" $R/verif/mc/Cargo.toml
  i=0
  for p in $LIST; do
    i=$((i+1)); [ $(( i % K )) -eq $k ] || continue
    if grep -q '^# expect:' /verif/$p; then exp=$(grep '^# expect:' /verif/$p | head -1 | sed 's/^# expect://'); else
      exp=$(python3 -c "import json,os; print(' '.join(json.load(open(os.path.join(os.path.dirname('/verif/$p'),'meta.json'))).get('detected_by',[])))" 2>/dev/null); fi
    if ! git -C $R/repo apply /verif/$p 2>$R/apply.err; then echo "APPLY-FAILED $p: $(head -1 $R/apply.err)" >> $OUT/w$k.log; git -C $R/repo checkout -q -- .; continue; fi
    tests="skipped"
    if [ $TESTS -eq 1 ]; then if (cd $R/repo && CARGO_TARGET_DIR=$R/rt cargo test --workspace --no-fail-fast --offline >$R/tests.log 2>&1); then tests="pass"; else tests="FAIL"; fi; fi
    line="$p tests=$tests"
    for id in $exp; do
      out=$($R/verif/check "$id" --tier quick 2>/dev/null); rc=$?
      if [ $rc -eq 1 ] && echo "$out" | grep -q "^VIOLATION property=$id "; then line="$line $id=DETECTED"; else line="$line $id=MISSED(rc=$rc)"; fi
    done
    git -C $R/repo checkout -q -- .
    echo "$line" >> $OUT/w$k.log
  done
  git -C /repo worktree remove --force $R/repo; rm -rf $R
}
for k in $(seq 0 $((K-1))); do worker $k & done
wait
git -C /repo worktree prune
cat $OUT/w*.log | sort > $OUT/all.log
ok=$(grep -c . $OUT/all.log); bad=$(grep -cE "MISSED|APPLY-FAILED|tests=FAIL" $OUT/all.log)
grep -E "MISSED|APPLY-FAILED|tests=FAIL" $OUT/all.log
echo "selftest_par: $N patches, $ok reported, $bad not ok (log: $OUT/all.log)"
[ "$bad" -eq 0 ] && [ "$ok" -eq "$N" ]
