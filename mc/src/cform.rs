//! Canonical, implementation-neutral forms of parse results, and the observers that turn the library's public
//! result structures into them.  The reference decoder (refmodel.rs) produces the same forms from bytes.
use netflow_parser::static_versions::{v5, v7};
use netflow_parser::variable_versions::data_number::{DataNumber, FieldValue};
use netflow_parser::variable_versions::{ipfix, v9};
use netflow_parser::{NetflowPacket, NetflowParseError, NetflowParser};
use std::collections::BTreeMap;

#[derive(Clone, PartialEq, Debug, Hash, Eq)]
pub enum CVal {
    U8(u8),
    U16(u16),
    U24(u32),
    U32(u32),
    U64(u64),
    U128(u128),
    /// signed value (two's complement of the field's own width, sign-extended)
    S(i128),
    Str(String),
    /// f64 bit pattern
    F64(u64),
    Dur(u64, u32),
    Ip4([u8; 4]),
    Ip6([u8; 16]),
    Mac(String),
    Bytes(Vec<u8>),
    /// name of the ProtocolTypes variant reported
    Proto(String),
    Unknown(Vec<u8>),
}

pub fn cval(v: &FieldValue) -> CVal {
    match v {
        FieldValue::String(s) => CVal::Str(s.clone()),
        FieldValue::DataNumber(d) => match d {
            DataNumber::U8(x) => CVal::U8(*x),
            DataNumber::U16(x) => CVal::U16(*x),
            DataNumber::U24(x) => CVal::U24(*x),
            DataNumber::I24(x) => CVal::S(*x as i128),
            DataNumber::U32(x) => CVal::U32(*x),
            DataNumber::U64(x) => CVal::U64(*x),
            DataNumber::U128(x) => CVal::U128(*x),
            DataNumber::I32(x) => CVal::S(*x as i128),
        },
        FieldValue::Float64(f) => CVal::F64(f.to_bits()),
        FieldValue::Duration(d) => CVal::Dur(d.as_secs(), d.subsec_nanos()),
        FieldValue::Ip4Addr(a) => CVal::Ip4(a.octets()),
        FieldValue::Ip6Addr(a) => CVal::Ip6(a.octets()),
        FieldValue::MacAddr(s) => CVal::Mac(s.clone()),
        FieldValue::Vec(v) => CVal::Bytes(v.clone()),
        FieldValue::ProtocolType(p) => CVal::Proto(format!("{:?}", p)),
        FieldValue::Unknown(v) => CVal::Unknown(v.clone()),
    }
}

/// (field index inside its record, field name, value)
pub type CField = (usize, String, CVal);

#[derive(Clone, PartialEq, Debug, Eq, Hash)]
pub struct CTplField {
    pub ty: u16,
    pub name: String,
    pub len: u16,
    pub pen: Option<u32>,
}
#[derive(Clone, PartialEq, Debug, Eq, Hash)]
pub enum CTpl {
    /// id, declared field count, fields
    Plain(u16, u16, Vec<CTplField>),
    /// V9 options template: id, scope_len, opt_len, scope fields, option fields
    V9Opt(u16, u16, u16, Vec<CTplField>, Vec<CTplField>),
    /// IPFIX options template: id, field_count, scope_field_count, fields
    IpfixOpt(u16, u16, u16, Vec<CTplField>),
}
impl CTpl {
    pub fn id(&self) -> u16 {
        match self {
            CTpl::Plain(i, ..) | CTpl::V9Opt(i, ..) | CTpl::IpfixOpt(i, ..) => *i,
        }
    }
}

#[derive(Clone, PartialEq, Debug, Eq, Hash)]
pub enum CBody {
    Tpl(Vec<CTpl>, Vec<u8>),
    OptTpl(Vec<CTpl>, Vec<u8>),
    /// flat field list, number of records (None when the representation does not say), padding
    Data(Vec<CField>, Option<usize>, Vec<u8>),
    OptData(Vec<CField>, Option<usize>, Vec<u8>),
}
#[derive(Clone, PartialEq, Debug, Eq, Hash)]
pub struct CSet {
    pub id: u16,
    pub len: u16,
    pub body: CBody,
}
#[derive(Clone, PartialEq, Debug, Eq, Hash)]
pub struct CFixed {
    pub version: u16,
    pub hdr: Vec<(&'static str, u64)>,
    pub recs: Vec<Vec<(&'static str, u64)>>,
    /// Debug name of the protocol_type attached to each record
    pub protos: Vec<String>,
}
#[derive(Clone, PartialEq, Debug, Eq, Hash)]
pub struct CVar {
    pub version: u16,
    /// V9: count, sys_up_time, unix_secs, seq, source_id ; IPFIX: length, export_time, seq, odid
    pub hdr: Vec<u64>,
    pub sets: Vec<CSet>,
}
#[derive(Clone, PartialEq, Debug, Eq, Hash)]
pub enum CPkt {
    Fixed(CFixed),
    Var(CVar),
    /// kind (Incomplete/Partial/UnknownVersion), remaining
    Error(String, Vec<u8>),
}

impl CPkt {
    pub fn version(&self) -> Option<u16> {
        match self {
            CPkt::Fixed(f) => Some(f.version),
            CPkt::Var(v) => Some(v.version),
            CPkt::Error(..) => None,
        }
    }
    pub fn is_error(&self) -> bool {
        matches!(self, CPkt::Error(..))
    }
}

pub const V5_HDR: [(&str, usize, usize); 9] = [
    ("version", 0, 2),
    ("count", 2, 2),
    ("sys_up_time", 4, 4),
    ("unix_secs", 8, 4),
    ("unix_nsecs", 12, 4),
    ("flow_sequence", 16, 4),
    ("engine_type", 20, 1),
    ("engine_id", 21, 1),
    ("sampling_interval", 22, 2),
];
pub const V5_REC: [(&str, usize, usize); 20] = [
    ("src_addr", 0, 4),
    ("dst_addr", 4, 4),
    ("next_hop", 8, 4),
    ("input", 12, 2),
    ("output", 14, 2),
    ("d_pkts", 16, 4),
    ("d_octets", 20, 4),
    ("first", 24, 4),
    ("last", 28, 4),
    ("src_port", 32, 2),
    ("dst_port", 34, 2),
    ("pad1", 36, 1),
    ("tcp_flags", 37, 1),
    ("protocol_number", 38, 1),
    ("tos", 39, 1),
    ("src_as", 40, 2),
    ("dst_as", 42, 2),
    ("src_mask", 44, 1),
    ("dst_mask", 45, 1),
    ("pad2", 46, 2),
];
pub const V7_HDR: [(&str, usize, usize); 7] = [
    ("version", 0, 2),
    ("count", 2, 2),
    ("sys_up_time", 4, 4),
    ("unix_secs", 8, 4),
    ("unix_nsecs", 12, 4),
    ("flow_sequence", 16, 4),
    ("reserved", 20, 4),
];
pub const V7_REC: [(&str, usize, usize); 21] = [
    ("src_addr", 0, 4),
    ("dst_addr", 4, 4),
    ("next_hop", 8, 4),
    ("input", 12, 2),
    ("output", 14, 2),
    ("d_pkts", 16, 4),
    ("d_octets", 20, 4),
    ("first", 24, 4),
    ("last", 28, 4),
    ("src_port", 32, 2),
    ("dst_port", 34, 2),
    ("flags_fields_valid", 36, 1),
    ("tcp_flags", 37, 1),
    ("protocol_number", 38, 1),
    ("tos", 39, 1),
    ("src_as", 40, 2),
    ("dst_as", 42, 2),
    ("src_mask", 44, 1),
    ("dst_mask", 45, 1),
    ("flags_fields_invalid", 46, 2),
    ("router_src", 48, 4),
];

fn ip(a: &std::net::Ipv4Addr) -> u64 {
    u32::from(*a) as u64
}

pub fn c_v5(p: &v5::V5) -> CFixed {
    let h = &p.header;
    let hdr = vec![
        ("version", h.version as u64),
        ("count", h.count as u64),
        ("sys_up_time", h.sys_up_time as u64),
        ("unix_secs", h.unix_secs as u64),
        ("unix_nsecs", h.unix_nsecs as u64),
        ("flow_sequence", h.flow_sequence as u64),
        ("engine_type", h.engine_type as u64),
        ("engine_id", h.engine_id as u64),
        ("sampling_interval", h.sampling_interval as u64),
    ];
    let mut recs = vec![];
    let mut protos = vec![];
    for r in &p.flowsets {
        recs.push(vec![
            ("src_addr", ip(&r.src_addr)),
            ("dst_addr", ip(&r.dst_addr)),
            ("next_hop", ip(&r.next_hop)),
            ("input", r.input as u64),
            ("output", r.output as u64),
            ("d_pkts", r.d_pkts as u64),
            ("d_octets", r.d_octets as u64),
            ("first", r.first as u64),
            ("last", r.last as u64),
            ("src_port", r.src_port as u64),
            ("dst_port", r.dst_port as u64),
            ("pad1", r.pad1 as u64),
            ("tcp_flags", r.tcp_flags as u64),
            ("protocol_number", r.protocol_number as u64),
            ("tos", r.tos as u64),
            ("src_as", r.src_as as u64),
            ("dst_as", r.dst_as as u64),
            ("src_mask", r.src_mask as u64),
            ("dst_mask", r.dst_mask as u64),
            ("pad2", r.pad2 as u64),
        ]);
        protos.push(format!("{:?}", r.protocol_type));
    }
    CFixed { version: 5, hdr, recs, protos }
}

pub fn c_v7(p: &v7::V7) -> CFixed {
    let h = &p.header;
    let hdr = vec![
        ("version", h.version as u64),
        ("count", h.count as u64),
        ("sys_up_time", h.sys_up_time as u64),
        ("unix_secs", h.unix_secs as u64),
        ("unix_nsecs", h.unix_nsecs as u64),
        ("flow_sequence", h.flow_sequence as u64),
        ("reserved", h.reserved as u64),
    ];
    let mut recs = vec![];
    let mut protos = vec![];
    for r in &p.flowsets {
        recs.push(vec![
            ("src_addr", ip(&r.src_addr)),
            ("dst_addr", ip(&r.dst_addr)),
            ("next_hop", ip(&r.next_hop)),
            ("input", r.input as u64),
            ("output", r.output as u64),
            ("d_pkts", r.d_pkts as u64),
            ("d_octets", r.d_octets as u64),
            ("first", r.first as u64),
            ("last", r.last as u64),
            ("src_port", r.src_port as u64),
            ("dst_port", r.dst_port as u64),
            ("flags_fields_valid", r.flags_fields_valid as u64),
            ("tcp_flags", r.tcp_flags as u64),
            ("protocol_number", r.protocol_number as u64),
            ("tos", r.tos as u64),
            ("src_as", r.src_as as u64),
            ("dst_as", r.dst_as as u64),
            ("src_mask", r.src_mask as u64),
            ("dst_mask", r.dst_mask as u64),
            ("flags_fields_invalid", r.flags_fields_invalid as u64),
            ("router_src", ip(&r.router_src)),
        ]);
        protos.push(format!("{:?}", r.protocol_type));
    }
    CFixed { version: 7, hdr, recs, protos }
}

fn v9_tf(f: &v9::TemplateField) -> CTplField {
    CTplField { ty: f.field_type_number, name: format!("{:?}", f.field_type), len: f.field_length, pen: None }
}
pub fn c_v9_tpl(t: &v9::Template) -> CTpl {
    CTpl::Plain(t.template_id, t.field_count, t.fields.iter().map(v9_tf).collect())
}
pub fn c_v9_opt(t: &v9::OptionsTemplate) -> CTpl {
    CTpl::V9Opt(
        t.template_id,
        t.options_scope_length,
        t.options_length,
        t.scope_fields
            .iter()
            .map(|f| CTplField { ty: f.field_type_number, name: format!("Scope:{:?}", f.field_type), len: f.field_length, pen: None })
            .collect(),
        t.option_fields.iter().map(v9_tf).collect(),
    )
}

pub fn c_v9(p: &v9::V9) -> CVar {
    let h = &p.header;
    let hdr = vec![h.count as u64, h.sys_up_time as u64, h.unix_secs as u64, h.sequence_number as u64, h.source_id as u64];
    let mut sets = vec![];
    for s in &p.flowsets {
        let body = match &s.body {
            v9::FlowSetBody::Template(t) => CBody::Tpl(t.templates.iter().map(c_v9_tpl).collect(), t.padding.clone()),
            v9::FlowSetBody::OptionsTemplate(t) => CBody::OptTpl(t.templates.iter().map(c_v9_opt).collect(), t.padding.clone()),
            v9::FlowSetBody::Data(d) => {
                let mut flat = vec![];
                for rec in &d.fields {
                    for (k, (ft, v)) in rec.iter() {
                        flat.push((*k, format!("{:?}", ft), cval(v)));
                    }
                }
                CBody::Data(flat, Some(d.fields.len()), d.padding.clone())
            }
            v9::FlowSetBody::OptionsData(d) => {
                let mut flat = vec![];
                let mut k = 0;
                for sf in &d.scope_fields {
                    let (n, b) = match sf {
                        v9::ScopeDataField::System(b) => ("Scope:System", b),
                        v9::ScopeDataField::Interface(b) => ("Scope:Interface", b),
                        v9::ScopeDataField::LineCard(b) => ("Scope:LineCard", b),
                        v9::ScopeDataField::NetFlowCache(b) => ("Scope:NetflowCache", b),
                        v9::ScopeDataField::Template(b) => ("Scope:Template", b),
                    };
                    flat.push((k, n.to_string(), CVal::Bytes(b.clone())));
                    k += 1;
                }
                for of in &d.options_fields {
                    flat.push((k, format!("{:?}", of.field_type), CVal::Bytes(of.field_value.clone())));
                    k += 1;
                }
                // the structure can hold exactly one record (none if no field was decoded)
                let n = if flat.is_empty() { 0 } else { 1 };
                CBody::OptData(flat, Some(n), d.padding.clone())
            }
        };
        sets.push(CSet { id: s.header.flowset_id, len: s.header.length, body });
    }
    CVar { version: 9, hdr, sets }
}

fn ipfix_tf(f: &ipfix::TemplateField) -> CTplField {
    CTplField { ty: f.field_type_number, name: format!("{:?}", f.field_type), len: f.field_length, pen: f.enterprise_number }
}
pub fn c_ipfix_tpl(t: &ipfix::Template) -> CTpl {
    CTpl::Plain(t.template_id, t.field_count, t.fields.iter().map(ipfix_tf).collect())
}
pub fn c_ipfix_opt(t: &ipfix::OptionsTemplate) -> CTpl {
    CTpl::IpfixOpt(t.template_id, t.field_count, t.scope_field_count, t.fields.iter().map(ipfix_tf).collect())
}
fn ipfix_flat(recs: &[BTreeMap<usize, (netflow_parser::variable_versions::ipfix_lookup::IPFixField, FieldValue)>]) -> Vec<CField> {
    let mut flat = vec![];
    for m in recs {
        for (k, (ft, v)) in m.iter() {
            flat.push((*k, format!("{:?}", ft), cval(v)));
        }
    }
    flat
}

pub fn c_ipfix(p: &ipfix::IPFix) -> CVar {
    let h = &p.header;
    let hdr = vec![h.length as u64, h.export_time as u64, h.sequence_number as u64, h.observation_domain_id as u64];
    let mut sets = vec![];
    for s in &p.flowsets {
        let body = match &s.body {
            ipfix::FlowSetBody::Template(t) => CBody::Tpl(vec![c_ipfix_tpl(t)], t.padding.clone()),
            ipfix::FlowSetBody::OptionsTemplate(t) => CBody::OptTpl(vec![c_ipfix_opt(t)], t.padding.clone()),
            ipfix::FlowSetBody::Data(d) => CBody::Data(ipfix_flat(&d.fields), None, d.padding.clone()),
            ipfix::FlowSetBody::OptionsData(d) => CBody::OptData(ipfix_flat(&d.fields), None, d.padding.clone()),
        };
        sets.push(CSet { id: s.header.header_id, len: s.header.length, body });
    }
    CVar { version: 10, hdr, sets }
}

pub fn c_pkt(p: &NetflowPacket) -> CPkt {
    match p {
        NetflowPacket::V5(x) => CPkt::Fixed(c_v5(x)),
        NetflowPacket::V7(x) => CPkt::Fixed(c_v7(x)),
        NetflowPacket::V9(x) => CPkt::Var(c_v9(x)),
        NetflowPacket::IPFix(x) => CPkt::Var(c_ipfix(x)),
        NetflowPacket::Error(e) => {
            let kind = match &e.error {
                NetflowParseError::Incomplete(_) => "Incomplete".to_string(),
                NetflowParseError::Partial(pp) => format!("Partial(v{})", pp.version),
                NetflowParseError::UnallowedVersion(v) => format!("UnallowedVersion({})", v),
                NetflowParseError::UnknownVersion(_) => "UnknownVersion".to_string(),
            };
            CPkt::Error(kind, e.remaining.clone())
        }
    }
}

// ------------------------------------------------------------------------------------------------ cache snapshots

/// Canonical snapshot of the four template maps of one parser (sorted; V9 maps are HashMaps in the library).
#[derive(Clone, PartialEq, Eq, Hash, Debug, Default)]
pub struct Snap {
    pub v9_t: BTreeMap<u16, CTpl>,
    pub v9_o: BTreeMap<u16, CTpl>,
    pub ipfix_t: BTreeMap<u16, CTpl>,
    pub ipfix_o: BTreeMap<u16, CTpl>,
}
impl Snap {
    pub fn size(&self) -> usize {
        self.v9_t.len() + self.v9_o.len() + self.ipfix_t.len() + self.ipfix_o.len()
    }
}

pub fn snap(p: &NetflowParser) -> Snap {
    Snap {
        v9_t: p.v9_parser.templates.iter().map(|(k, t)| (*k, c_v9_tpl(t))).collect(),
        v9_o: p.v9_parser.options_templates.iter().map(|(k, t)| (*k, c_v9_opt(t))).collect(),
        ipfix_t: p.ipfix_parser.templates.iter().map(|(k, t)| (*k, c_ipfix_tpl(t))).collect(),
        ipfix_o: p.ipfix_parser.options_templates.iter().map(|(k, t)| (*k, c_ipfix_opt(t))).collect(),
    }
}

/// Full (cloned) cache contents, from which an equivalent parser can be rebuilt through the public fields.
#[derive(Clone, Debug, Default)]
pub struct Caches {
    pub v9_t: BTreeMap<u16, v9::Template>,
    pub v9_o: BTreeMap<u16, v9::OptionsTemplate>,
    pub ipfix_t: BTreeMap<u16, ipfix::Template>,
    pub ipfix_o: BTreeMap<u16, ipfix::OptionsTemplate>,
}
pub fn caches(p: &NetflowParser) -> Caches {
    Caches {
        v9_t: p.v9_parser.templates.iter().map(|(k, t)| (*k, t.clone())).collect(),
        v9_o: p.v9_parser.options_templates.iter().map(|(k, t)| (*k, t.clone())).collect(),
        ipfix_t: p.ipfix_parser.templates.clone(),
        ipfix_o: p.ipfix_parser.options_templates.clone(),
    }
}
pub fn rebuild(c: &Caches, allowed: Option<&[u16]>) -> NetflowParser {
    let mut p = NetflowParser::default();
    p.v9_parser.templates = c.v9_t.iter().map(|(k, t)| (*k, t.clone())).collect();
    p.v9_parser.options_templates = c.v9_o.iter().map(|(k, t)| (*k, t.clone())).collect();
    p.ipfix_parser.templates = c.ipfix_t.clone();
    p.ipfix_parser.options_templates = c.ipfix_o.clone();
    if let Some(a) = allowed {
        p.allowed_versions = a.iter().cloned().collect();
    }
    p
}
pub fn new_parser(allowed: Option<&[u16]>) -> NetflowParser {
    let mut p = NetflowParser::default();
    if let Some(a) = allowed {
        p.allowed_versions = a.iter().cloned().collect();
    }
    p
}
