//! Shared index-addressable families of (history, buffer) cases for the properties quantified over *all* inputs
//! (C01, C02, C09, C10, C14, C16): grammar product with adversarial templates (A), deviation-bounded byte-level
//! neighbourhood of seeds (B), tiny buffers (D).  The scale ladder (C) lives in ladder.rs.
use crate::util::*;
use crate::wire::*;
use std::sync::Arc;

#[derive(Clone, Debug, Default)]
pub struct Case {
    /// earlier calls on the same parser
    pub prior: Vec<Vec<u8>>,
    pub input: Vec<u8>,
}
impl Case {
    pub fn describe(&self) -> serde_json::Value {
        serde_json::json!({"prior_calls": self.prior.iter().map(|c| short_hex(c)).collect::<Vec<_>>(), "input": short_hex(&self.input), "input_len": self.input.len()})
    }
}
fn short_hex(b: &[u8]) -> String {
    if b.len() <= 2048 {
        hex(b)
    } else {
        format!("{}..(+{} bytes)", hex(&b[..2048]), b.len() - 2048)
    }
}

pub trait Family: Sync + Send {
    fn name(&self) -> String;
    fn size(&self) -> u64;
    fn case(&self, idx: u64) -> Case;
}
pub struct FnFamily<F: Fn(u64) -> Case + Sync + Send> {
    pub name: String,
    pub size: u64,
    pub f: F,
}
impl<F: Fn(u64) -> Case + Sync + Send> Family for FnFamily<F> {
    fn name(&self) -> String {
        self.name.clone()
    }
    fn size(&self) -> u64 {
        self.size
    }
    fn case(&self, idx: u64) -> Case {
        (self.f)(idx)
    }
}
pub fn family<F: Fn(u64) -> Case + Sync + Send + 'static>(name: &str, size: u64, f: F) -> Arc<dyn Family> {
    Arc::new(FnFamily { name: name.to_string(), size, f })
}

/// Δ-values for a 16-bit length/count field whose true value is `t`
pub fn delta16(t: u16) -> Vec<u16> {
    let mut v = vec![t, 0, 1, 2, 3, 4, 5, t.wrapping_sub(1), t.wrapping_add(1), 255, 256, 0x7fff, 0x8000, 0xfffe, 0xffff];
    v.dedup();
    v
}
pub const NDELTA: u64 = 15;
pub fn delta16_at(t: u16, k: u64) -> u16 {
    [t, 0, 1, 2, 3, 4, 5, t.wrapping_sub(1), t.wrapping_add(1), 255, 256, 0x7fff, 0x8000, 0xfffe, 0xffff][k as usize]
}

const FILLS: u64 = 4;
fn body_fill(kind: u64, len: usize, salt: usize) -> Vec<u8> {
    match kind {
        0 => vec![0; len],
        1 => vec![0xff; len],
        2 => (0..len).map(|j| fill(salt, j)).collect(),
        _ => (0..len).map(|j| [0xffu8, 0, 0][j % 3]).collect(),
    }
}

// ------------------------------------------------------------------------------------------------ family A, V9

/// raw template flowset bodies (id, body) — normal and adversarial.  id 0 = template flowset, 1 = options.
pub fn v9_template_menu() -> Vec<(&'static str, u16, Vec<u8>)> {
    fn t(id: u16, declared: u16, fields: &[(u16, u16)]) -> Vec<u8> {
        let mut b = vec![];
        p16(&mut b, id);
        p16(&mut b, declared);
        for (a, l) in fields {
            p16(&mut b, *a);
            p16(&mut b, *l);
        }
        b
    }
    fn o(id: u16, sl: u16, ol: u16, fields: &[(u16, u16)]) -> Vec<u8> {
        let mut b = vec![];
        p16(&mut b, id);
        p16(&mut b, sl);
        p16(&mut b, ol);
        for (a, l) in fields {
            p16(&mut b, *a);
            p16(&mut b, *l);
        }
        b
    }
    vec![
        ("no-fields", 0, t(256, 0, &[])),
        ("one-zero-width", 0, t(256, 1, &[(1, 0)])),
        ("all-zero-width", 0, t(256, 3, &[(1, 0), (2, 0), (8, 0)])),
        ("u32", 0, t(256, 1, &[(1, 4)])),
        ("u32-u16-proto", 0, t(256, 3, &[(1, 4), (7, 2), (4, 1)])),
        ("ip4-ip6-mac", 0, t(256, 3, &[(8, 4), (27, 16), (56, 6)])),
        ("unsupported-width-5", 0, t(256, 1, &[(1, 5)])),
        ("width-65535", 0, t(256, 1, &[(1, 65535)])),
        ("string0-u8", 0, t(256, 2, &[(94, 0), (1, 1)])),
        ("ip4-declared-1", 0, t(256, 1, &[(8, 1)])),
        ("mac-declared-2", 0, t(256, 1, &[(56, 2)])),
        ("declared-2-has-1", 0, t(256, 2, &[(1, 4)])),
        ("declared-1-has-2", 0, t(256, 1, &[(1, 4), (2, 4)])),
        ("duration-16", 0, t(256, 1, &[(21, 16)])),
        ("unknown3-string7", 0, t(256, 2, &[(300, 3), (96, 7)])),
        ("proto", 0, t(256, 1, &[(4, 1)])),
        ("sum-saturates", 0, t(256, 3, &[(1, 0x7fff), (2, 0x7fff), (3, 2)])),
        ("declared-65535", 0, t(256, 65535, &[(1, 4)])),
        ("two-templates", 0, [t(256, 1, &[(1, 2)]), t(257, 1, &[(2, 0)])].concat()),
        ("opt-empty", 1, o(256, 0, 0, &[])),
        ("opt-normal", 1, o(256, 4, 4, &[(1, 4), (34, 2)])),
        ("opt-scope-len-3", 1, o(256, 3, 4, &[(1, 4), (34, 2)])),
        ("opt-all-zero-width", 1, o(256, 4, 4, &[(1, 0), (1, 0)])),
        ("opt-unknown-scope-type", 1, o(256, 4, 4, &[(9, 4), (1, 2)])),
        ("opt-lengths-65535", 1, o(256, 0xffff, 0xffff, &[(1, 4)])),
        ("opt-huge-field", 1, o(256, 4, 4, &[(1, 65535), (1, 65535)])),
    ]
}

fn raw_set(id: u16, len_field: u16, body: &[u8]) -> Vec<u8> {
    let mut v = vec![];
    p16(&mut v, id);
    p16(&mut v, len_field);
    v.extend_from_slice(body);
    v
}
fn v9_hdr(count: u16) -> Vec<u8> {
    let mut v = vec![];
    p16(&mut v, 9);
    p16(&mut v, count);
    p32(&mut v, 0x0102_0304);
    p32(&mut v, 0x6553_f100);
    p32(&mut v, 7);
    p32(&mut v, 0x0c0d_0e0f);
    v
}
fn ipfix_hdr(len: u16) -> Vec<u8> {
    let mut v = vec![];
    p16(&mut v, 10);
    p16(&mut v, len);
    p32(&mut v, 0x6553_f1a2);
    p32(&mut v, 9);
    p32(&mut v, 0x3e4f_5a6b);
    v
}

/// Family A for V9: template menu x data-body length x fill x delivery x set-length Δ x header-count menu
pub fn family_a_v9(max_body: usize) -> Arc<dyn Family> {
    let menu = v9_template_menu();
    let nt = menu.len() as u64;
    let nb = max_body as u64 + 1;
    let counts: [u16; 6] = [0xfffd, 0, 1, 2, 255, 0xffff]; // 0xfffd = "true" marker, replaced below
    let radices = [nt, nb, FILLS, 4, NDELTA, counts.len() as u64];
    family(&format!("A-v9-grammar(body<={})", max_body), product(&radices), move |i| {
        let d = digits(i, &radices);
        let (_, tid, tbody) = &menu[d[0] as usize];
        let body = body_fill(d[2], d[1] as usize, d[0] as usize);
        let tset = raw_set(*tid, (tbody.len() + 4) as u16, tbody);
        let dset = raw_set(256, delta16_at((body.len() + 4) as u16, d[4]), &body);
        let cnt = |true_n: u16| if d[5] == 0 { true_n } else { counts[d[5] as usize] };
        match d[3] {
            0 => {
                // same packet
                let mut p = v9_hdr(cnt(2));
                p.extend(&tset);
                p.extend(&dset);
                Case { prior: vec![], input: p }
            }
            1 => {
                // two packets in one buffer
                let mut p = v9_hdr(1);
                p.extend(&tset);
                p.extend(v9_hdr(cnt(1)));
                p.extend(&dset);
                Case { prior: vec![], input: p }
            }
            2 => {
                // template in an earlier call
                let mut t = v9_hdr(1);
                t.extend(&tset);
                let mut p = v9_hdr(cnt(1));
                p.extend(&dset);
                Case { prior: vec![t], input: p }
            }
            _ => {
                // a normal template first, data decoded with it, then the menu template replaces it
                let mut t0 = v9_hdr(1);
                t0.extend(raw_set(0, 12, &[1, 0, 0, 1, 0, 1, 0, 4]));
                let mut d0 = v9_hdr(1);
                d0.extend(raw_set(256, 12, &[1, 2, 3, 4, 5, 6, 7, 8]));
                let mut t = v9_hdr(1);
                t.extend(&tset);
                let mut p = v9_hdr(cnt(1));
                p.extend(&dset);
                Case { prior: vec![t0, d0, t], input: p }
            }
        }
    })
}

// ------------------------------------------------------------------------------------------------ family A, IPFIX

pub fn ipfix_template_menu() -> Vec<(&'static str, u16, Vec<u8>)> {
    fn f(v: &mut Vec<u8>, ty: u16, len: u16, pen: Option<u32>) {
        p16(v, ty);
        p16(v, len);
        if let Some(p) = pen {
            p32(v, p);
        }
    }
    fn t(id: u16, declared: u16, fields: &[(u16, u16, Option<u32>)]) -> Vec<u8> {
        let mut b = vec![];
        p16(&mut b, id);
        p16(&mut b, declared);
        for (a, l, p) in fields {
            f(&mut b, *a, *l, *p);
        }
        b
    }
    fn o(id: u16, fc: u16, sc: u16, fields: &[(u16, u16, Option<u32>)]) -> Vec<u8> {
        let mut b = vec![];
        p16(&mut b, id);
        p16(&mut b, fc);
        p16(&mut b, sc);
        for (a, l, p) in fields {
            f(&mut b, *a, *l, *p);
        }
        b
    }
    vec![
        ("no-fields", 2, t(256, 0, &[])),
        ("one-zero-width", 2, t(256, 1, &[(1, 0, None)])),
        ("zero-then-u8", 2, t(256, 2, &[(82, 0, None), (4, 1, None)])),
        ("u32", 2, t(256, 1, &[(1, 4, None)])),
        ("u32-u16-u8", 2, t(256, 3, &[(1, 4, None), (7, 2, None), (4, 1, None)])),
        ("ip4-ip6-mac", 2, t(256, 3, &[(8, 4, None), (27, 16, None), (56, 6, None)])),
        ("unsupported-width-5", 2, t(256, 1, &[(1, 5, None)])),
        ("width-65534", 2, t(256, 1, &[(1, 65534, None)])),
        ("varlen-string", 2, t(256, 1, &[(82, 65535, None)])),
        ("varlen-varlen-u8", 2, t(256, 3, &[(82, 65535, None), (600, 65535, None), (4, 1, None)])),
        ("varlen-numeric", 2, t(256, 1, &[(1, 65535, None)])),
        ("enterprise-fixed", 2, t(256, 1, &[(0x8000 | 12, 4, Some(9))])),
        ("enterprise-varlen", 2, t(256, 2, &[(0x8000 | 12, 65535, Some(9)), (4, 1, None)])),
        ("enterprise-truncated-pen", 2, [t(256, 1, &[]), vec![0x80, 12, 0, 4, 0, 0]].concat()),
        ("ip4-declared-1", 2, t(256, 1, &[(8, 1, None)])),
        ("mac-declared-2", 2, t(256, 1, &[(56, 2, None)])),
        ("declared-2-has-1", 2, t(256, 2, &[(1, 4, None)])),
        ("declared-1-has-2", 2, t(256, 1, &[(1, 4, None), (2, 4, None)])),
        ("signed-8", 2, t(256, 1, &[(434, 8, None)])),
        ("float-8-dur-8", 2, t(256, 2, &[(320, 8, None), (152, 8, None)])),
        ("float-declared-4", 2, t(256, 1, &[(320, 4, None)])),
        ("two-templates", 2, [t(256, 1, &[(1, 2, None)]), t(257, 1, &[(2, 1, None)])].concat()),
        ("set-id-4-template", 4, t(256, 1, &[(1, 4, None)])),
        ("opt-empty", 3, o(256, 0, 0, &[])),
        ("opt-normal", 3, o(256, 2, 1, &[(149, 4, None), (41, 2, None)])),
        ("opt-scope>fields", 3, o(256, 1, 5, &[(149, 4, None), (41, 2, None), (1, 1, None), (2, 1, None), (3, 1, None), (4, 1, None)])),
        ("opt-counts-65535", 3, o(256, 0xffff, 0xffff, &[(149, 4, None)])),
        ("opt-all-zero-width", 3, o(256, 2, 1, &[(149, 0, None), (41, 0, None)])),
        ("opt-varlen", 3, o(256, 2, 1, &[(82, 65535, None), (4, 1, None)])),
    ]
}

/// Family A for IPFIX: template menu x data-body length x fill x delivery x set-length Δ x message-length Δ
pub fn family_a_ipfix(max_body: usize) -> Arc<dyn Family> {
    let menu = ipfix_template_menu();
    let nt = menu.len() as u64;
    let nb = max_body as u64 + 1;
    let mlens: u64 = 6;
    let radices = [nt, nb, FILLS, 4, NDELTA, mlens];
    family(&format!("A-ipfix-grammar(body<={})", max_body), product(&radices), move |i| {
        let d = digits(i, &radices);
        let (_, tid, tbody) = &menu[d[0] as usize];
        let body = body_fill(d[2], d[1] as usize, d[0] as usize);
        let tset = raw_set(*tid, (tbody.len() + 4) as u16, tbody);
        let dset = raw_set(256, delta16_at((body.len() + 4) as u16, d[4]), &body);
        let mlen = |t: usize| -> u16 {
            match d[5] {
                0 => t as u16,
                1 => 0,
                2 => 15,
                3 => (t - 1) as u16,
                4 => (t + 1) as u16,
                _ => 0xffff,
            }
        };
        let msg = |sets: &[&[u8]], dev: bool| -> Vec<u8> {
            let total: usize = 16 + sets.iter().map(|s| s.len()).sum::<usize>();
            let mut m = ipfix_hdr(if dev { mlen(total) } else { total as u16 });
            for s in sets {
                m.extend_from_slice(s);
            }
            m
        };
        match d[3] {
            0 => Case { prior: vec![], input: msg(&[&tset, &dset], true) },
            1 => {
                let mut p = msg(&[&tset], false);
                p.extend(msg(&[&dset], true));
                Case { prior: vec![], input: p }
            }
            2 => Case { prior: vec![msg(&[&tset], false)], input: msg(&[&dset], true) },
            _ => {
                let t0 = msg(&[&raw_set(2, 12, &[1, 0, 0, 1, 0, 1, 0, 4])], false);
                let d0 = msg(&[&raw_set(256, 12, &[1, 2, 3, 4, 5, 6, 7, 8])], false);
                Case { prior: vec![t0, d0, msg(&[&tset], false)], input: msg(&[&dset], true) }
            }
        }
    })
}

/// Family A2: every ordered PAIR of menu templates delivered in two earlier calls (the second redefines the id, possibly
/// as the other kind), then data for the id: body length 0..=max_body x 4 fills
pub fn family_a2(ipfix: bool, max_body: usize) -> Arc<dyn Family> {
    let menu = if ipfix { ipfix_template_menu() } else { v9_template_menu() };
    let nt = menu.len() as u64;
    let radices = [nt, nt, max_body as u64 + 1, FILLS];
    family(&format!("A2-{}-template-pairs(body<={})", if ipfix { "ipfix" } else { "v9" }, max_body), product(&radices), move |i| {
        let d = digits(i, &radices);
        let pkt = |k: usize| -> Vec<u8> {
            let (_, tid, tbody) = &menu[k];
            let tset = raw_set(*tid, (tbody.len() + 4) as u16, tbody);
            if ipfix {
                let mut m = ipfix_hdr((16 + tset.len()) as u16);
                m.extend(&tset);
                m
            } else {
                let mut p = v9_hdr(1);
                p.extend(&tset);
                p
            }
        };
        let body = body_fill(d[3], d[2] as usize, (d[0] * 31 + d[1]) as usize);
        let dset = raw_set(256, (body.len() + 4) as u16, &body);
        let input = if ipfix {
            let mut m = ipfix_hdr((16 + dset.len()) as u16);
            m.extend(&dset);
            m
        } else {
            let mut p = v9_hdr(1);
            p.extend(&dset);
            p
        };
        Case { prior: vec![pkt(d[0] as usize), pkt(d[1] as usize)], input }
    })
}

/// Family E: every field type number 0..=520 (+600, 32767) x declared lengths incl. unsupported ones x short bodies,
/// template and data in one packet and (odd indices) template in an earlier call
pub fn family_e(ipfix: bool) -> Arc<dyn Family> {
    const LENS: [u16; 14] = [0, 1, 2, 3, 4, 5, 6, 7, 8, 9, 16, 17, 255, 65535];
    const BODIES: [usize; 10] = [0, 1, 2, 3, 4, 5, 8, 16, 17, 40];
    let ntypes = 523u64;
    let radices = [ntypes, LENS.len() as u64, BODIES.len() as u64, 2];
    family(if ipfix { "E-ipfix-every-type x declared-length x body" } else { "E-v9-every-type x declared-length x body" }, product(&radices), move |i| {
        let d = digits(i, &radices);
        let ty: u16 = match d[0] {
            521 => 600,
            522 => 32767,
            x => x as u16,
        };
        let len = LENS[d[1] as usize];
        let body: Vec<u8> = (0..BODIES[d[2] as usize]).map(|j| fill(d[0] as usize, j)).collect();
        let mut t = vec![];
        p16(&mut t, 256);
        p16(&mut t, 2);
        p16(&mut t, ty);
        p16(&mut t, len);
        p16(&mut t, 5);
        p16(&mut t, 1);
        let (tset, dset) = (raw_set(if ipfix { 2 } else { 0 }, (t.len() + 4) as u16, &t), raw_set(256, (body.len() + 4) as u16, &body));
        if ipfix {
            let msg = |sets: &[&[u8]]| {
                let total: usize = 16 + sets.iter().map(|s| s.len()).sum::<usize>();
                let mut m = ipfix_hdr(total as u16);
                for s in sets {
                    m.extend_from_slice(s);
                }
                m
            };
            if d[3] == 0 {
                Case { prior: vec![], input: msg(&[&tset, &dset]) }
            } else {
                Case { prior: vec![msg(&[&tset])], input: msg(&[&dset]) }
            }
        } else if d[3] == 0 {
            let mut p = v9_hdr(2);
            p.extend(&tset);
            p.extend(&dset);
            Case { prior: vec![], input: p }
        } else {
            let mut t = v9_hdr(1);
            t.extend(&tset);
            let mut p = v9_hdr(1);
            p.extend(&dset);
            Case { prior: vec![t], input: p }
        }
    })
}

// ------------------------------------------------------------------------------------------------ seeds

pub fn corpus() -> Vec<(String, Vec<u8>)> {
    let mut v = vec![];
    let dir = format!("{}/corpus", crate::engine::verif());
    let mut names: Vec<_> = std::fs::read_dir(&dir).map(|d| d.filter_map(|e| e.ok()).map(|e| e.path()).collect()).unwrap_or_default();
    names.sort();
    for p in names {
        if p.extension().map(|e| e == "hex").unwrap_or(false) {
            let s = std::fs::read_to_string(&p).unwrap_or_default();
            v.push((p.file_stem().unwrap().to_string_lossy().to_string(), unhex(&s)));
        }
    }
    if v.is_empty() {
        panic!("corpus directory {} is empty", dir);
    }
    v
}

/// one conformant seed per stream shape: (name, templates needed (as a prior call), packet)
pub fn conformant_seeds() -> Vec<(String, Vec<u8>, Vec<u8>)> {
    let mut v = vec![];
    v.push(("v5x2".to_string(), vec![], fixed_distinct(5, 2, 1)));
    v.push(("v7x1".to_string(), vec![], fixed_distinct(7, 1, 2)));
    // V9
    let a = V9Tpl { id: 256, fields: vec![fs(8, 4), fs(7, 2), fs(4, 1), fs(5, 1)] };
    let b = V9Tpl { id: 257, fields: vec![fs(27, 16), fs(21, 4), fs(56, 6), fs(96, 3)] };
    let o = V9OptTpl { id: 258, scope: vec![fs(1, 4)], opts: vec![fs(34, 2), fs(36, 2)] };
    let ts = V9Set::Tpl(vec![a.clone(), b.clone()], 0);
    let os = V9Set::OptTpl(vec![o.clone()], 2);
    let da = V9Set::Data(256, crate::props::c04::body_for(&a.fields, 2, 2, None));
    let db = V9Set::Data(257, crate::props::c04::body_for(&b.fields, 1, 3, None));
    let od = V9Set::Data(258, (0..8).map(|j| fill(9, j)).collect());
    let tpk = v9_packet(&V9Pkt::new(vec![ts.clone(), os.clone()]));
    v.push(("v9-templates".to_string(), vec![], tpk.clone()));
    v.push(("v9-data".to_string(), tpk.clone(), v9_packet(&V9Pkt::new(vec![da.clone(), db.clone(), od.clone()]))));
    v.push(("v9-template+data".to_string(), vec![], v9_packet(&V9Pkt::new(vec![ts, da, os, od, db]))));
    // IPFIX
    let a = IpfixTpl { id: 256, fields: vec![fs(8, 4), fs(7, 2), fs(4, 1), fse(12, 2, 9)] };
    let b = IpfixTpl { id: 257, fields: vec![fs(82, 65535), fs(152, 8), fs(56, 6), fs(434, 2)] };
    let o = IpfixOptTpl { id: 258, scope_count: 1, fields: vec![fs(149, 4), fs(41, 2), fs(42, 2)] };
    let sa = IpfixSet::Tpl(vec![a.clone()], 0);
    let sb = IpfixSet::Tpl(vec![b.clone()], 0);
    let so = IpfixSet::OptTpl(vec![o.clone()], 0);
    let da = IpfixSet::Data(256, crate::props::c05::body_for(&a.fields, 2, 2, None));
    let db = IpfixSet::Data(257, crate::props::c05::body_for(&b.fields, 2, 0, None));
    let od = IpfixSet::Data(258, (0..8).map(|j| fill(9, j)).collect());
    let tm = ipfix_message(&IpfixMsg::new(vec![sa.clone(), sb.clone(), so.clone()]));
    v.push(("ipfix-templates".to_string(), vec![], tm.clone()));
    v.push(("ipfix-data".to_string(), tm.clone(), ipfix_message(&IpfixMsg::new(vec![da.clone(), db.clone(), od.clone()]))));
    v.push(("ipfix-template+data".to_string(), vec![], ipfix_message(&IpfixMsg::new(vec![sa, da, sb, so, od, db]))));
    v
}

/// adversarial cache state: every adversarial template of both menus, delivered one packet per template under
/// each of the ids 256..=258 (the last definition per id wins, so three variants rotate which one that is)
pub fn adversarial_prior(variant: usize) -> Vec<Vec<u8>> {
    let mut calls = vec![];
    let v9 = v9_template_menu();
    let ip = ipfix_template_menu();
    let n9 = v9.len();
    let ni = ip.len();
    for k in 0..3usize {
        let (_, id, body) = &v9[(variant * 5 + k * 7) % n9];
        let mut body = body.clone();
        if body.len() >= 2 {
            body[0..2].copy_from_slice(&(256 + k as u16).to_be_bytes());
        }
        let mut p = v9_hdr(1);
        p.extend(raw_set(*id, (body.len() + 4) as u16, &body));
        calls.push(p);
        let (_, id, body) = &ip[(variant * 3 + k * 11) % ni];
        let mut body = body.clone();
        if body.len() >= 2 {
            body[0..2].copy_from_slice(&(256 + k as u16).to_be_bytes());
        }
        let mut m = ipfix_hdr((16 + 4 + body.len()) as u16);
        m.extend(raw_set(*id, (body.len() + 4) as u16, &body));
        calls.push(m);
    }
    calls
}

/// all seeds as (name, natural prior, buffer)
pub fn all_seeds(include_corpus: bool, max_len: usize) -> Vec<(String, Vec<u8>, Vec<u8>)> {
    let mut v = conformant_seeds();
    if include_corpus {
        for (n, b) in corpus() {
            if b.len() <= max_len {
                v.push((format!("corpus:{}", n), vec![], b));
            }
        }
    }
    v
}

fn prior_for(state: u64, natural: &[u8], seed: &[u8]) -> Vec<Vec<u8>> {
    match state {
        0 => vec![],
        1 => {
            // primed with the seed's own templates (and whatever the seed needs)
            let mut p = vec![];
            if !natural.is_empty() {
                p.push(natural.to_vec());
            }
            p.push(seed.to_vec());
            p
        }
        s => adversarial_prior(s as usize - 2),
    }
}

/// Family B, d = 1: every seed x every offset x all 256 byte values x cache state {empty, primed, adversarial}
pub fn family_b1(seeds: Vec<(String, Vec<u8>, Vec<u8>)>, states: u64) -> Arc<dyn Family> {
    let mut offs = vec![0u64];
    for (_, _, b) in &seeds {
        offs.push(offs.last().unwrap() + b.len() as u64);
    }
    let total = *offs.last().unwrap();
    family(&format!("B1-single-byte({} seeds, {} bytes, {} cache states)", seeds.len(), total, states), total * 256 * states, move |i| {
        let d = digits(i, &[256, total, states]);
        let pos = d[1];
        let s = offs.partition_point(|o| *o <= pos) - 1;
        let (_, nat, seed) = &seeds[s];
        let mut b = seed.clone();
        b[(pos - offs[s]) as usize] = d[0] as u8;
        Case { prior: prior_for(d[2], nat, seed), input: b }
    })
}

/// Family B, truncation: every seed x every proper prefix x cache state
pub fn family_b_trunc(seeds: Vec<(String, Vec<u8>, Vec<u8>)>, states: u64) -> Arc<dyn Family> {
    let mut offs = vec![0u64];
    for (_, _, b) in &seeds {
        offs.push(offs.last().unwrap() + b.len() as u64);
    }
    let total = *offs.last().unwrap();
    family(&format!("B-truncation({} seeds)", seeds.len()), total * states, move |i| {
        let d = digits(i, &[total, states]);
        let s = offs.partition_point(|o| *o <= d[0]) - 1;
        let (_, nat, seed) = &seeds[s];
        Case { prior: prior_for(d[1], nat, seed), input: seed[..(d[0] - offs[s]) as usize].to_vec() }
    })
}

const D2: [i16; 7] = [0x00, 0x01, 0x7f, 0x80, 0xff, -1, -2]; // -1 => orig+1, -2 => orig-1
/// Family B, d = 2: every pair of offsets x 7x7 values, over the given seeds, primed cache
pub fn family_b2(seeds: Vec<(String, Vec<u8>, Vec<u8>)>) -> Arc<dyn Family> {
    let mut offs = vec![0u64];
    for (_, _, b) in &seeds {
        let n = b.len() as u64;
        offs.push(offs.last().unwrap() + n * (n - 1) / 2);
    }
    let total = *offs.last().unwrap();
    family(&format!("B2-two-bytes({} seeds)", seeds.len()), total * 49 * 2, move |i| {
        let d = digits(i, &[7, 7, total, 2]);
        let s = offs.partition_point(|o| *o <= d[2]) - 1;
        let (_, nat, seed) = &seeds[s];
        // unrank the pair
        let mut k = d[2] - offs[s];
        let n = seed.len() as u64;
        let mut a = 0u64;
        while k >= n - 1 - a {
            k -= n - 1 - a;
            a += 1;
        }
        let bpos = a + 1 + k;
        let mut b = seed.clone();
        let sub = |orig: u8, c: i16| -> u8 {
            match c {
                -1 => orig.wrapping_add(1),
                -2 => orig.wrapping_sub(1),
                x => x as u8,
            }
        };
        b[a as usize] = sub(b[a as usize], D2[d[0] as usize]);
        b[bpos as usize] = sub(b[bpos as usize], D2[d[1] as usize]);
        Case { prior: prior_for(d[3], nat, seed), input: b }
    })
}

/// structural deviations: delete / duplicate a structural unit, swap two adjacent sets (on the conformant seeds)
pub fn family_b_struct() -> Arc<dyn Family> {
    // units are found with a simple set walker on the *seed* (known conformant)
    let seeds = conformant_seeds();
    let mut cases: Vec<Case> = vec![];
    for (_, nat, seed) in &seeds {
        let v = r16(seed, 0);
        let hdr = match v {
            9 => 20,
            10 => 16,
            _ => continue,
        };
        let mut units = vec![];
        let mut o = hdr;
        while o + 4 <= seed.len() {
            let l = r16(seed, o + 2) as usize;
            if l < 4 || o + l > seed.len() {
                break;
            }
            units.push((o, l));
            o += l;
        }
        let fixlen = |mut b: Vec<u8>| {
            if v == 10 {
                let l = b.len() as u16;
                b[2..4].copy_from_slice(&l.to_be_bytes());
            }
            b
        };
        for st in 0..2 {
            let prior = prior_for(st, nat, seed);
            for (k, (o, l)) in units.iter().enumerate() {
                // delete
                let mut b = seed[..*o].to_vec();
                b.extend_from_slice(&seed[o + l..]);
                cases.push(Case { prior: prior.clone(), input: fixlen(b.clone()) });
                cases.push(Case { prior: prior.clone(), input: b });
                // duplicate
                let mut b = seed[..o + l].to_vec();
                b.extend_from_slice(&seed[*o..]);
                cases.push(Case { prior: prior.clone(), input: fixlen(b.clone()) });
                cases.push(Case { prior: prior.clone(), input: b });
                // swap with next
                if k + 1 < units.len() {
                    let (o2, l2) = units[k + 1];
                    let mut b = seed[..*o].to_vec();
                    b.extend_from_slice(&seed[o2..o2 + l2]);
                    b.extend_from_slice(&seed[*o..o + l]);
                    b.extend_from_slice(&seed[o2 + l2..]);
                    cases.push(Case { prior: prior.clone(), input: b });
                }
            }
        }
    }
    let n = cases.len() as u64;
    family("B-structural(delete/duplicate/swap sets)", n, move |i| cases[i as usize].clone())
}

// ------------------------------------------------------------------------------------------------ family D

/// every buffer of length <= 2, and for each of the four versions every continuation of <= 2 bytes
pub fn family_d() -> Arc<dyn Family> {
    let small = 1 + 256 + 65536u64;
    family("D-tiny-buffers", small * 5, move |i| {
        let d = digits(i, &[small, 5]);
        let tail: Vec<u8> = match d[0] {
            0 => vec![],
            x if x <= 256 => vec![(x - 1) as u8],
            x => {
                let y = x - 257;
                vec![(y >> 8) as u8, y as u8]
            }
        };
        let mut b = match d[1] {
            0 => vec![],
            1 => vec![0, 5],
            2 => vec![0, 7],
            3 => vec![0, 9],
            _ => vec![0, 10],
        };
        b.extend(tail);
        Case { prior: vec![], input: b }
    })
}
