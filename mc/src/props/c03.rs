//! C03 — V5 and V7 packets decode exactly per the Cisco fixed layouts (E-ENUM, stateless).
use crate::cform::*;
use crate::diff::diff_list;
use crate::engine::*;
use crate::refmodel::{ref_buffer, RefCache};
use crate::util::*;
use crate::wire::*;
use netflow_parser::NetflowParser;
use serde_json::json;

/// judge one buffer made of V5/V7 material against the offset-table reference
pub fn judge(buf: &[u8]) -> Eval {
    let mut p = NetflowParser::default();
    let got: Vec<CPkt> = p.parse_bytes(buf).iter().map(c_pkt).collect();
    let exp = ref_buffer(buf, &mut RefCache::default()).expect("C03 generator produced a non-v5/v7 buffer");
    let mut issues = diff_list(&exp, &got);
    if snap(&p).size() != 0 {
        issues.push(issue("cache-touched", "a V5/V7 buffer changed the template caches"));
    }
    Eval { key: h64(&got), transitions: 1, issues, tags: vec![] }
}


const VALS: [u64; 5] = [0, 1, 0x8000_0000_0000_0000, u64::MAX, 0xa5c3_96e1_7b2d_4f08];
fn field_val(k: usize, width: usize) -> Vec<u8> {
    let v = match k {
        0 => 0u64,
        1 => 1,
        2 => 1u64 << (width * 8 - 1),
        3 => u64::MAX >> (64 - width * 8),
        _ => VALS[4] >> (64 - width * 8),
    };
    v.to_be_bytes()[8 - width..].to_vec()
}

/// index-addressable generators of V5/V7 buffers (shared with C08, C13 and C16, which judge them with their own oracles)
#[derive(Clone)]
pub struct BufGen {
    pub name: String,
    pub size: u64,
    pub gen: std::sync::Arc<dyn Fn(u64) -> Vec<u8> + Send + Sync>,
}
fn bg(name: String, size: u64, f: impl Fn(u64) -> Vec<u8> + Send + Sync + 'static) -> BufGen {
    BufGen { name, size, gen: std::sync::Arc::new(f) }
}
impl BufGen {
    pub fn into_space(self, judge: impl Fn(&[u8]) -> Eval + Send + Sync + 'static) -> Box<dyn Space> {
        let (g, g2) = (self.gen.clone(), self.gen.clone());
        space(&self.name, self.size, move |i| judge(&g(i)), move |i| json!({"calls": [short(&g2(i))], "buffer_len": g2(i).len()}))
    }
}

pub fn buffers(tier: &str) -> Vec<BufGen> {
    let thorough = tier == "thorough";
    let mut v: Vec<BufGen> = vec![];
    for version in [5u16, 7] {
        let rs = rec_size(version);
        // (a) walking byte over two byte-distinct base packets (2 records each, followed by a 1-record packet of the
        // other version so that the end of the packet is observable)
        for salt in [0usize, 91] {
            let mut base = fixed_distinct(version, 2, salt);
            let plen = base.len();
            base.extend(fixed_distinct(12 - version, 1, salt + 5));
            v.push(bg(format!("v{}-walking-byte-salt{}", version, salt), ((plen - 2) * 256) as u64, move |i| {
                let mut b = base.clone();
                b[2 + (i / 256) as usize] = (i % 256) as u8;
                b
            }));
        }
        // (a2) three records of which record 1 and record 2 are copies of record 0 except for ONE byte (every byte of
        // the record in turn, two replacement values): a decoder that reuses the previous record when "nothing changed"
        {
            let one = fixed_distinct(version, 1, 33);
            v.push(bg(format!("v{}-neighbouring-records-differing-in-one-byte", version), (rs * 2) as u64, move |i| {
                let (off, val) = ((i / 2) as usize, if i % 2 == 0 { 0x5au8 } else { 0x00 });
                let mut b = one.clone();
                b[2..4].copy_from_slice(&3u16.to_be_bytes());
                let rec = one[24..24 + rs].to_vec();
                let mut r1 = rec.clone();
                r1[off] = if r1[off] == val { val ^ 0xff } else { val };
                b.extend_from_slice(&r1);
                b.extend_from_slice(&rec);
                b
            }));
        }
        let htab: Vec<(usize, usize)> = if version == 5 { V5_HDR.iter().skip(2).map(|x| (x.1, x.2)).collect() } else { V7_HDR.iter().skip(2).map(|x| (x.1, x.2)).collect() };
        // (b) boundary values on every field, all pairs of fields x 5x5 values, 2-record packet, field in record 1
        {
            let rtab: Vec<(usize, usize)> = if version == 5 { V5_REC.iter().map(|x| (24 + rs + x.1, x.2)).collect() } else { V7_REC.iter().map(|x| (24 + rs + x.1, x.2)).collect() };
            let fields: Vec<(usize, usize)> = htab.iter().cloned().chain(rtab.into_iter()).collect();
            let nf = fields.len() as u64;
            let base = fixed_distinct(version, 2, 17);
            v.push(bg(format!("v{}-field-pairs", version), nf * nf * 25, move |i| {
                let d = digits(i, &[nf, nf, 5, 5]);
                let mut b = base.clone();
                let (o1, w1) = fields[d[0] as usize];
                let (o2, w2) = fields[d[1] as usize];
                b[o1..o1 + w1].copy_from_slice(&field_val(d[2] as usize, w1));
                b[o2..o2 + w2].copy_from_slice(&field_val(d[3] as usize, w2));
                b
            }));
        }
        // (b2) every 16-bit field x all 65536 values; every 32-bit field x powers of two / ten and neighbours
        {
            let rtab: Vec<(usize, usize)> = if version == 5 { V5_REC.iter().map(|x| (24 + x.1, x.2)).collect() } else { V7_REC.iter().map(|x| (24 + x.1, x.2)).collect() };
            let all: Vec<(usize, usize)> = htab.iter().cloned().chain(rtab.into_iter()).collect();
            let f16: Vec<usize> = all.iter().filter(|f| f.1 == 2).map(|f| f.0).collect();
            let f32: Vec<usize> = all.iter().filter(|f| f.1 == 4).map(|f| f.0).collect();
            let base = fixed_distinct(version, 1, 19);
            let b1 = base.clone();
            v.push(bg(format!("v{}-every-16-bit-field x all-65536-values", version), f16.len() as u64 * 65536, move |i| {
                let mut b = b1.clone();
                let o = f16[(i / 65536) as usize];
                b[o..o + 2].copy_from_slice(&((i % 65536) as u16).to_be_bytes());
                b
            }));
            let menu: Vec<u32> = crate::alphabet::values(crate::refmodel::Class::Unsigned, 4).into_iter().map(|x| u32::from_be_bytes([x[0], x[1], x[2], x[3]])).collect();
            let nm = menu.len() as u64;
            v.push(bg(format!("v{}-every-32-bit-field x threshold-menu", version), f32.len() as u64 * nm, move |i| {
                let mut b = base.clone();
                let o = f32[(i / nm) as usize];
                b[o..o + 4].copy_from_slice(&menu[(i % nm) as usize].to_be_bytes());
                b
            }));
        }
        // (c) every count 0..=65535 against buffers holding 0, 1, 3, 30 and the maximal number of records
        let maxrec = (65535 - 24) / rs;
        for h in [0usize, 1, 3, 30, maxrec] {
            let base = fixed_distinct(version, h, 3);
            v.push(bg(format!("v{}-all-counts-over-{}-records", version, h), 65536, move |c| {
                let mut b = base.clone();
                b[2..4].copy_from_slice(&(c as u16).to_be_bytes());
                b
            }));
        }
        // every materialisable count with byte-distinct records (exact packets)
        v.push(bg(format!("v{}-materialised-counts-0..={}", version, maxrec), maxrec as u64 + 1, move |n| fixed_distinct(version, n as usize, 7)));
        // packets of 0..=4 records followed by a packet of the other version and one of the same version
        v.push(bg(format!("v{}-count-0..=4-followed-by-two-packets", version), 5 * 3, move |i| {
            let mut b = fixed_distinct(version, (i / 3) as usize, 31);
            b.extend(fixed_distinct(12 - version, (i % 3) as usize, 32));
            b.extend(fixed_distinct(version, 2, 33));
            b
        }));
        // (d) all 256 protocol numbers at record 0 and record 1
        v.push(bg(format!("v{}-all-protocol-numbers", version), 512, move |i| {
            let mut b = fixed_distinct(version, 2, 23);
            b[24 + (i / 256) as usize * rs + 38] = (i % 256) as u8;
            b
        }));
        // (e) every proper prefix
        let mut prefix_of = vec![0usize, 1, 2, 3, 30, maxrec];
        if thorough {
            prefix_of.push(maxrec / 2);
        }
        for n in prefix_of {
            let full = fixed_distinct(version, n, 11);
            v.push(bg(format!("v{}-every-prefix-of-{}-records", version, n), full.len() as u64, move |cut| full[..cut as usize].to_vec()));
        }
    }
    v
}

pub fn spaces(tier: &str) -> Vec<Box<dyn Space>> {
    buffers(tier).into_iter().map(|g| g.into_space(judge)).collect()
}

pub fn run(tier: &str) -> i32 {
    let rep = Report {
        prop: "C03".into(),
        tier: tier.into(),
        level: "exploration",
        rule: "every index of each listed space is evaluated: walking byte (every offset x 256 values), all field pairs x 5x5 boundary values, every count 0..=65535 over buffers holding 0/1/3/30/max records, every materialisable record count, all 256 protocol numbers, every proper prefix; an evaluation is non-trivial/distinct by the hash of the canonical result list".into(),
        bounds: json!({"versions": [5,7], "counts": "0..=65535", "protocol_numbers": "0..=255", "max_records": "datagram limit (1364 / 1259)"}),
        assumptions: vec!["IANA keyword per protocol number is the table typed into mc/src/iana.rs (spelling of the library's enum)".into()],
        trusted_base: vec!["reference offset-table decoder refmodel::ref_fixed".into()],
        required_tags: vec![],
        extra: Default::default(),
    };
    run_report(rep, spaces(tier))
}
