//! Shared judge for C04/C05: run a stream of calls on one real parser and compare every call's result with the
//! reference decode (pure specification first; the recorded-defect model second, see refmodel::Q).
use crate::cform::*;
use crate::diff::diff_list;
use crate::engine::*;
use crate::refmodel::*;
use crate::util::*;
use netflow_parser::{NetflowPacket, NetflowParser};

pub struct Judged {
    pub eval: Eval,
    pub results: Vec<Vec<NetflowPacket>>,
    /// quirk signatures that fired (recorded defects relevant to this stream)
    pub fired: Vec<&'static str>,
}

pub fn default_allowed(v: u16) -> bool {
    matches!(v, 5 | 7 | 9 | 10)
}

pub fn judge_stream(calls: &[Vec<u8>]) -> Judged {
    let mut p = NetflowParser::default();
    let mut pure_c = RefCache::default();
    let mut quirk_c = RefCache::default();
    let mut issues: Vec<Issue> = vec![];
    let mut results = vec![];
    let mut keyacc: Vec<u64> = vec![];
    let mut fired_all: Vec<&'static str> = vec![];
    // defects that corrupt the cache keep influencing later calls
    let mut sticky: std::collections::BTreeSet<&'static str> = Default::default();
    for (ci, call) in calls.iter().enumerate() {
        let res = p.parse_bytes(call);
        let got: Vec<CPkt> = res.iter().map(c_pkt).collect();
        keyacc.push(h64(&got));
        let exp_pure = match ref_buffer_allowed(call, &mut pure_c, &default_allowed, &mut Q::pure()) {
            Ok(e) => e,
            Err(e) => panic!("generator produced a stream outside the reference model's domain: {:?} call {} = {}", e, ci, hex(call)),
        };
        let mut q = Q::quirky();
        let exp_q = ref_buffer_allowed(call, &mut quirk_c, &default_allowed, &mut q);
        q.fired.extend(sticky.iter());
        for f in &q.fired {
            if f.contains("template-set") {
                sticky.insert(*f);
            }
        }
        if got != exp_pure {
            match exp_q {
                Ok(eq) => {
                    for f in &q.fired {
                        issues.push(issue(*f, format!("call {}: recorded defect model applies", ci)));
                    }
                    if got != eq {
                        for mut i in diff_list(&eq, &got) {
                            i.detail = format!("call {}: {} (against the expectation adjusted for recorded defects {:?})", ci, i.detail, q.fired);
                            issues.push(i);
                        }
                    }
                }
                Err(e) => {
                    // the defect model cannot express this stream: report what fired plus the raw difference
                    for f in &q.fired {
                        issues.push(issue(*f, format!("call {}: recorded defect model applies ({:?})", ci, e)));
                    }
                    if q.fired.is_empty() {
                        for mut i in diff_list(&exp_pure, &got) {
                            i.detail = format!("call {}: {}", ci, i.detail);
                            issues.push(i);
                        }
                    }
                }
            }
        }
        fired_all.extend(q.fired.iter());
        results.push(res);
    }
    issues.dedup_by(|a, b| a.sig == b.sig);
    Judged { eval: Eval { key: h64(&keyacc), transitions: calls.len() as u64, issues, tags: vec![] }, results, fired: fired_all }
}

pub fn desc_calls(calls: &[Vec<u8>]) -> serde_json::Value {
    serde_json::json!({"calls_on_one_fresh_default_parser": calls.iter().map(|c| hex(c)).collect::<Vec<_>>()})
}

/// An index-addressable generator of streams (calls on one fresh default parser); None = index skipped
/// (combination outside the domain, e.g. a template of record size 0).
#[derive(Clone)]
pub struct StreamGen {
    pub name: String,
    pub size: u64,
    pub gen: std::sync::Arc<dyn Fn(u64) -> Option<Vec<Vec<u8>>> + Send + Sync>,
}
pub fn stream_gen(name: &str, size: u64, f: impl Fn(u64) -> Option<Vec<Vec<u8>>> + Send + Sync + 'static) -> StreamGen {
    StreamGen { name: name.to_string(), size, gen: std::sync::Arc::new(f) }
}
impl StreamGen {
    pub fn into_space(self, judge: impl Fn(&[Vec<u8>]) -> Eval + Send + Sync + 'static) -> Box<dyn Space> {
        let g = self.gen.clone();
        let g2 = self.gen.clone();
        space(
            &self.name,
            self.size,
            move |i| match g(i) {
                Some(c) => judge(&c),
                None => Eval { key: 0, transitions: 0, issues: vec![], tags: vec!["skipped-outside-domain"] },
            },
            move |i| g2(i).map(|c| desc_calls(&c)).unwrap_or(serde_json::json!("skipped: outside the domain")),
        )
    }
}
