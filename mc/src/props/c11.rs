//! C11 — packets chained in one buffer decode exactly as if delivered one per call (E-ENUM: sequences x partitions).
use crate::alphabet::{list_at, list_count};
use crate::cform::*;
use crate::engine::*;
use crate::menu;
use crate::util::*;
use netflow_parser::NetflowParser;
use serde_json::json;

/// run `packets` on a fresh parser, joining packet k with k+1 into one call when bit k of `mask` is set
fn run_partition(packets: &[Vec<u8>], mask: u32) -> (String, Snap, usize) {
    let mut p = NetflowParser::default();
    let mut all = vec![];
    let mut buf: Vec<u8> = vec![];
    let mut calls = 0;
    for (k, pk) in packets.iter().enumerate() {
        buf.extend_from_slice(pk);
        let join = k + 1 < packets.len() && (mask >> k) & 1 == 1;
        if !join {
            all.extend(p.parse_bytes(&buf));
            buf.clear();
            calls += 1;
        }
    }
    (format!("{:?}", all), snap(&p), calls)
}

/// packets that make a cache LARGE: one V9 template flowset with 1 100 templates (ids 1000..2099), the same as 1 100
/// IPFIX template sets, V9 options templates, data for the first / last of those ids, and a V5 packet
const BIG: usize = 13;
const BIG_NAMES: [&str; BIG] = ["V9-T x1100 (ids 1000..2099)", "V9-D(1000)", "V9-D(2099)", "IPFIX-T x1100 (ids 1000..2099)", "IPFIX-D(1000)", "IPFIX-D(2099)", "V9-OT x1100 (ids 3000..4099)", "V5x1", "V9-OT without scope and without options (id 4500)", "V9-D(4500)", "V9-OT(4600, layout X)+data", "V9-OT(4600, layout Y)+data", "V9-T(4600)+data"];
fn big_packet(k: usize, salt: usize) -> Vec<u8> {
    use crate::wire::*;
    let f = vec![fs(1, 4), fs(2, 4)];
    let body: Vec<u8> = (0..16).map(|j| fill(salt + 3, j)).collect();
    match k {
        0 => v9_packet(&V9Pkt::new(vec![V9Set::Tpl((0..1100).map(|i| V9Tpl { id: 1000 + i, fields: f.clone() }).collect(), 0)])),
        1 => v9_packet(&V9Pkt::new(vec![V9Set::Data(1000, body)])),
        2 => v9_packet(&V9Pkt::new(vec![V9Set::Data(2099, body)])),
        3 => ipfix_message(&IpfixMsg::new((0..1100).map(|i| IpfixSet::Tpl(vec![IpfixTpl { id: 1000 + i, fields: f.clone() }], 0)).collect())),
        4 => ipfix_message(&IpfixMsg::new(vec![IpfixSet::Data(1000, body)])),
        5 => ipfix_message(&IpfixMsg::new(vec![IpfixSet::Data(2099, body)])),
        6 => v9_packet(&V9Pkt::new(vec![V9Set::OptTpl((0..1100).map(|i| V9OptTpl { id: 3000 + i, scope: vec![fs(1, 4)], opts: vec![fs(2, 4)] }).collect(), 0)])),
        7 => fixed_distinct(5, 1, salt),
        // a degenerate but accepted options template (no scope field, no option field) and data for it
        8 => v9_packet(&V9Pkt::new(vec![V9Set::OptTpl(vec![V9OptTpl { id: 4500, scope: vec![], opts: vec![] }], 0)])),
        9 => v9_packet(&V9Pkt::new(vec![V9Set::Data(4500, body[..4].to_vec())])),
        // one id announced as an options template in two layouts, and as a plain template: within one call and across calls
        // the LATEST announcement governs the data that follows it
        10 => v9_packet(&V9Pkt::new(vec![V9Set::OptTpl(vec![V9OptTpl { id: 4600, scope: vec![fs(1, 4)], opts: vec![fs(34, 4), fs(36, 4)] }], 0), V9Set::Data(4600, body[..12].to_vec())])),
        11 => v9_packet(&V9Pkt::new(vec![V9Set::OptTpl(vec![V9OptTpl { id: 4600, scope: vec![fs(2, 2)], opts: vec![fs(34, 2), fs(36, 2)] }], 0), V9Set::Data(4600, body[..12].to_vec())])),
        _ => v9_packet(&V9Pkt::new(vec![V9Set::Tpl(vec![V9Tpl { id: 4600, fields: vec![fs(8, 4), fs(7, 2)] }], 0), V9Set::Data(4600, body[..12].to_vec())])),
    }
}

pub fn judge(seq: &[usize]) -> Eval {
    let packets: Vec<Vec<u8>> = seq.iter().enumerate().map(|(pos, k)| menu::packet(*k, pos * 13 + 1)).collect();
    judge_packets(seq, packets)
}

fn judge_packets(seq: &[usize], packets: Vec<Vec<u8>>) -> Eval {
    let n = packets.len();
    let (base, base_snap, _) = run_partition(&packets, 0);
    let mut tags = vec![];
    if base.contains("Error(") {
        // an erroring packet legitimately swallows the rest of its buffer: outside "self-delimiting" - unless it is the
        // LAST packet of the sequence (nothing follows it that could be swallowed)
        let (head, _, _) = run_partition(&packets[..n - 1], 0);
        if n < 2 || head.contains("Error(") {
            return Eval { key: 0, transitions: n as u64, issues: vec![], tags: vec!["out-of-domain:one-per-call-run-has-an-error"] };
        }
        tags.push("failing-packet-last");
    }
    let mut issues = vec![];
    let mut transitions = n as u64;
    for mask in 1..(1u32 << (n - 1)) {
        let (r, s, calls) = run_partition(&packets, mask);
        transitions += calls as u64;
        if r != base {
            issues.push(issue("result-depends-on-partition", format!("partition mask {:#b} (bit k joins packet k with k+1): results differ from one-packet-per-call delivery", mask)));
            break;
        }
        if s != base_snap {
            issues.push(issue("cache-depends-on-partition", format!("partition mask {:#b}: final caches differ from one-packet-per-call delivery", mask)));
            break;
        }
    }
    if seq.windows(2).any(|w| (w[0] == 3 && w[1] == 4) || (w[0] == 7 && w[1] == 8) || (w[0] == 10 && w[1] == 8) || (w[0] == 15 && w[1] == 4)) {
        tags.push("early-packet-defines-template-a-later-one-needs");
    }
    Eval { key: h64(&base) | 1, transitions, issues, tags }
}

pub fn spaces(tier: &str) -> Vec<Box<dyn Space>> {
    let thorough = tier == "thorough";
    let mut v: Vec<Box<dyn Space>> = vec![];
    let maxlen = 5;
    let m = menu::SELF_DELIMITING + 1; // + V9 data for an absent id: a self-delimiting packet whose result is an error
    let nl = list_count(m, maxlen);
    v.push(space(
        &format!("all-sequences<={}-over-18-packet-menu x all-partitions", maxlen),
        nl,
        move |i| judge(&list_at(m, maxlen, i)),
        move |i| {
            let s = list_at(m, maxlen, i);
            json!({"sequence": s.iter().map(|k| menu::NAMES[*k]).collect::<Vec<_>>(), "packets": s.iter().enumerate().map(|(pos,k)| hex(&menu::packet(*k, pos*13+1))).collect::<Vec<_>>(), "partitions": "all 2^(n-1)"})
        },
    ));
    if thorough {
        // length 6 over a 10-packet sub-menu
        const SUB: [usize; 10] = [0, 2, 3, 4, 6, 7, 8, 10, 12, 15];
        let nl6 = 10u64.pow(6);
        v.push(space(
            "all-sequences-of-6-over-10-packet-sub-menu x all-partitions",
            nl6,
            move |i| judge(&digits(i, &[10; 6]).into_iter().map(|d| SUB[d as usize]).collect::<Vec<_>>()),
            move |i| json!({"sequence": digits(i, &[10; 6]).into_iter().map(|d| menu::NAMES[SUB[d as usize]]).collect::<Vec<_>>(), "partitions": "all 32"}),
        ));
    }
    // caches of more than a thousand definitions: every sequence of <= 4 packets over the 8-packet large-cache menu
    {
        let maxlen = 4;
        let nl = list_count(BIG, maxlen);
        v.push(space(
            "all-sequences<=4-over-13-packet-large-cache-menu x all-partitions",
            nl,
            move |i| {
                let seq = list_at(BIG, maxlen, i);
                let packets: Vec<Vec<u8>> = seq.iter().enumerate().map(|(pos, k)| big_packet(*k, pos)).collect();
                let mut e = judge_packets(&[], packets);
                e.tags.retain(|t| !t.starts_with("early"));
                if seq.windows(2).any(|w| (w[0] == 0 && (w[1] == 1 || w[1] == 2)) || (w[0] == 3 && (w[1] == 4 || w[1] == 5))) && !e.tags.iter().any(|t| t.starts_with("out-of-domain")) {
                    e.tags.push("data-under-a-cache-of-more-than-1024-definitions");
                }
                e
            },
            move |i| {
                let s = list_at(BIG, maxlen, i);
                json!({"sequence": s.iter().map(|k| BIG_NAMES[*k]).collect::<Vec<_>>(), "partitions": "all 2^(n-1)", "packet_lengths": s.iter().enumerate().map(|(pos, k)| big_packet(*k, pos).len()).collect::<Vec<_>>()})
            },
        ));
    }
    // maximal homogeneous and mixed chains: all-in-one vs one-per-call
    let kinds: Vec<(usize, usize)> = vec![(0, 2730), (7, 2340), (9, 1190), (3, 1630), (1, 540), (100, 1400)];
    v.push(space(
        "maximal-chains: all-in-one vs one-per-call",
        kinds.len() as u64 * 4,
        move |i| {
            let (k, _) = kinds[(i / 4) as usize];
            // as many packets as fit one datagram; then 1/7, 1/2 and all of them
            let mut all: Vec<Vec<u8>> = vec![];
            let mut total = 0usize;
            for pos in 0.. {
                let pk = if k == 100 { menu::packet([0, 7, 2, 8, 3, 4, 9, 6][pos % 8], pos) } else { menu::packet(k, pos) };
                // the fourth size of every kind goes beyond a datagram (about 150 KB in one call)
                if total + pk.len() > if i % 4 == 3 { 150_000 } else { 65535 } {
                    break;
                }
                total += pk.len();
                all.push(pk);
            }
            let max = all.len();
            let n = [max / 7, max / 2, max, max][(i % 4) as usize];
            let packets: Vec<Vec<u8>> = all[..n].to_vec();
            let total: usize = packets.iter().map(|p| p.len()).sum();
            let mut p1 = NetflowParser::default();
            let one = p1.parse_bytes(&packets.concat());
            let mut p2 = NetflowParser::default();
            let mut per = vec![];
            for pk in &packets {
                per.extend(p2.parse_bytes(pk));
            }
            let mut issues = vec![];
            if format!("{:?}", one) != format!("{:?}", per) {
                issues.push(issue("result-depends-on-partition", format!("chain of {} packets ({} bytes): all-in-one differs from one-per-call", n, total)));
            }
            if snap(&p1) != snap(&p2) {
                issues.push(issue("cache-depends-on-partition", format!("chain of {} packets", n)));
            }
            Eval { key: h64(&(k, n, one.len())) | 1, transitions: n as u64 + 1, issues, tags: vec![] }
        },
        |i| json!({"chain kind / size index": i}),
    ));
    v
}

pub fn run(tier: &str) -> i32 {
    let thorough = tier == "thorough";
    let rep = Report {
        prop: "C11".into(),
        tier: tier.into(),
        level: "model_checking",
        rule: "every sequence of 1..=5 packets (thorough: also every sequence of 6 over a 10-packet sub-menu) over the 17-packet self-delimiting menu (V5x0, V5x2, V7x1, V9-T, V9-D, V9-TD, V9-OT+OD, IPFIX-T, IPFIX-D, IPFIX-TD, IPFIX-T', IPFIX-D(absent id), IPFIX header only, V9 count 0, V7x0, V9 and IPFIX data-then-redefinition), each under ALL 2^(n-1) partitions into consecutive calls on a fresh parser; sequences whose one-per-call run contains an error element are outside the domain (tagged, not judged) unless the failing packet is the last one of the sequence; plus every sequence of <= 4 packets over a 13-packet large-cache menu (one id announced as an options template in two layouts and as a plain template, each with data; 1 100 V9 templates in one flowset, 1 100 IPFIX template sets, 1 100 V9 options templates, data for the first and last id, V5, a V9 options template without scope and options and data for it) under all partitions, and maximal chains up to the datagram limit and of about 150 KB (all-in-one vs one-per-call). Oracle: canonical dump of the concatenated results and final cache snapshot identical to one-packet-per-call delivery. A sequence is distinct by the hash of its one-per-call result".into(),
        bounds: json!({"sequence_len": if thorough {"5 over 17 packets + 6 over 10 packets"} else {"5 over 17 packets"}, "menu": menu::NAMES[..menu::SELF_DELIMITING].to_vec(), "partitions": "all"}),
        assumptions: vec![],
        trusted_base: vec!["c11::judge".into()],
        required_tags: vec!["early-packet-defines-template-a-later-one-needs", "out-of-domain:one-per-call-run-has-an-error", "data-under-a-cache-of-more-than-1024-definitions", "failing-packet-last"],
        extra: Default::default(),
    };
    run_report(rep, spaces(tier))
}
