//! C06 — template cache: latest definition wins, persists, scoped to parser and protocol (E-HIST, fixpoint).
use crate::engine::*;
use crate::explore::*;
use crate::util::*;
use crate::wire::*;
use serde_json::{json, Value};
use std::sync::atomic::Ordering;
use std::time::Instant;

pub fn body12(salt: usize) -> Vec<u8> {
    (0..12).map(|j| fill(salt, j)).collect()
}
fn layout(l: usize) -> Vec<FieldSpec> {
    match l {
        0 => vec![fs(1, 4), fs(7, 2)],            // A: two 6-byte records out of 12 bytes
        1 => vec![fs(8, 4), fs(2, 8)],            // B: one 12-byte record
        _ => vec![fs(2, 8), fs(8, 4)],             // C: one 12-byte record, fields in the other order
    }
}
fn v9_t(id: u16, l: usize) -> V9Set {
    V9Set::Tpl(vec![V9Tpl { id, fields: layout(l) }], 0)
}
fn v9_ot(id: u16) -> V9Set {
    V9Set::OptTpl(vec![V9OptTpl { id, scope: vec![fs(1, 4)], opts: vec![fs(34, 4), fs(36, 4)] }], 2)
}
fn ip_t(id: u16, l: usize) -> IpfixSet {
    IpfixSet::Tpl(vec![IpfixTpl { id, fields: layout(l) }], 0)
}
fn ip_ot(id: u16) -> IpfixSet {
    IpfixSet::OptTpl(vec![IpfixOptTpl { id, scope_count: 1, fields: vec![fs(149, 4), fs(41, 8)] }], 0)
}
fn v9p(sets: Vec<V9Set>) -> Vec<u8> {
    v9_packet(&V9Pkt::new(sets))
}
fn ipm(sets: Vec<IpfixSet>) -> Vec<u8> {
    ipfix_message(&IpfixMsg::new(sets))
}
/// the same from another exporter (other source id / observation domain, sequence number, clocks)
fn v9p2(sets: Vec<V9Set>) -> Vec<u8> {
    let mut p = V9Pkt::new(sets);
    p.source_id = 0x0000_0001;
    p.seq = 7;
    p.sys_up_time = 5;
    v9_packet(&p)
}
fn ipm2(sets: Vec<IpfixSet>) -> Vec<u8> {
    let mut m = IpfixMsg::new(sets);
    m.odid = 0;
    m.seq = 0xffff_ffff;
    m.export_time = 1;
    ipfix_message(&m)
}

/// the per-instance action alphabet; `layouts` = 2 (A,B) or 3 (A,B,C)
pub const EXTRAS_LABEL: &str = "+ template ids equal to template-set ids";

/// `extras`: also the template records whose template id equals a template-set id (they multiply the state space by
/// 81 per instance, so only the configuration labelled EXTRAS_LABEL carries them)
pub fn alphabet(inst: usize, allowed: &[u16], ids: &[u16], layouts: usize, extras: bool) -> Vec<ActionSpec> {
    let mut v = vec![];
    let mut add = |name: String, bytes: Vec<u8>, parts: Option<Vec<Vec<u8>>>, proto: u16, defines: bool| {
        let inert = !defines || (proto != 0 && !allowed.contains(&proto));
        v.push(ActionSpec { name: format!("p{}.{}", inst, name), inst, bytes, parts, proto, inert, defines });
    };
    for (pi, proto) in [9u16, 10].iter().enumerate() {
        for id in ids {
            let salt = (*id as usize % 7) + pi * 3 + 1;
            let t = |l: usize| if *proto == 9 { v9p(vec![v9_t(*id, l)]) } else { ipm(vec![ip_t(*id, l)]) };
            let d = || if *proto == 9 { v9p(vec![V9Set::Data(*id, body12(salt))]) } else { ipm(vec![IpfixSet::Data(*id, body12(salt))]) };
            let pn = if *proto == 9 { "V9" } else { "IPFIX" };
            for l in 0..layouts {
                add(format!("T({},{},{})", pn, id, ["A", "B", "C"][l]), t(l), None, *proto, true);
            }
            add(format!("OT({},{})", pn, id), if *proto == 9 { v9p(vec![v9_ot(*id)]) } else { ipm(vec![ip_ot(*id)]) }, None, *proto, true);
            add(format!("D({},{})", pn, id), d(), None, *proto, false);
            for l in 0..layouts {
                add(
                    format!("TD({},{},{})", pn, id, ["A", "B", "C"][l]),
                    if *proto == 9 { v9p(vec![v9_t(*id, l), V9Set::Data(*id, body12(salt + 1))]) } else { ipm(vec![ip_t(*id, l), IpfixSet::Data(*id, body12(salt + 1))]) },
                    None,
                    *proto,
                    true,
                );
            }
            // an options template followed, in the same packet / message, by data for it (the id may be cached as a plain
            // template at that moment: the options template is the latest definition from the next set on)
            add(
                format!("OTD({},{})", pn, id),
                if *proto == 9 { v9p(vec![v9_ot(*id), V9Set::Data(*id, body12(salt + 5))]) } else { ipm(vec![ip_ot(*id), IpfixSet::Data(*id, body12(salt + 5))]) },
                None,
                *proto,
                true,
            );
            add(
                format!("DT({},{},B)", pn, id),
                if *proto == 9 { v9p(vec![V9Set::Data(*id, body12(salt + 2)), v9_t(*id, 1)]) } else { ipm(vec![IpfixSet::Data(*id, body12(salt + 2)), ip_t(*id, 1)]) },
                None,
                *proto,
                true,
            );
            let parts = vec![t(0), d()];
            add(format!("[T({},{},A)++D]", pn, id), parts.concat(), Some(parts), *proto, true);
            // the statement scopes the caches to parser and protocol, not to the exporter named in the header: a
            // definition or data from another source id / observation domain is the same parser's, same protocol's
            add(format!("T@other-source({},{},B)", pn, id), if *proto == 9 { v9p2(vec![v9_t(*id, 1)]) } else { ipm2(vec![ip_t(*id, 1)]) }, None, *proto, true);
            add(format!("D@other-source({},{})", pn, id), if *proto == 9 { v9p2(vec![V9Set::Data(*id, body12(salt + 3))]) } else { ipm2(vec![IpfixSet::Data(*id, body12(salt + 3))]) }, None, *proto, false);
            let parts = vec![t(0), if *proto == 9 { v9p2(vec![V9Set::Data(*id, body12(salt + 4))]) } else { ipm2(vec![IpfixSet::Data(*id, body12(salt + 4))]) }];
            add(format!("[T({},{},A)++D@other-source]", pn, id), parts.concat(), Some(parts), *proto, true);
        }
    }
    // V9 template flowsets carrying two template records: a copy of what may already be cached followed by a new
    // definition, and the reverse order
    if ids.len() >= 2 {
        let (a, b) = (ids[0], ids[1]);
        add(format!("T2(V9,[{}:A,{}:B])", a, b), v9p(vec![V9Set::Tpl(vec![V9Tpl { id: a, fields: layout(0) }, V9Tpl { id: b, fields: layout(1) }], 0)]), None, 9, true);
        add(format!("T2(V9,[{}:B,{}:A])", b, a), v9p(vec![V9Set::Tpl(vec![V9Tpl { id: b, fields: layout(1) }, V9Tpl { id: a, fields: layout(0) }], 0)]), None, 9, true);
        add(
            format!("OT2(V9,[{},{}])", a, b),
            v9p(vec![V9Set::OptTpl(vec![V9OptTpl { id: a, scope: vec![fs(1, 4)], opts: vec![fs(34, 4), fs(36, 4)] }, V9OptTpl { id: b, scope: vec![fs(1, 4)], opts: vec![fs(34, 4), fs(36, 4)] }], 0)]),
            None,
            9,
            true,
        );
    }
    // one V9 template flowset (IPFIX: one message with two template sets - the library reads one template record per
    // IPFIX set, a recorded C05 finding) defining the SAME id twice with different layouts: the last record is the latest
    // definition, whatever the cache held before (in particular when it already held exactly that last definition)
    {
        let a = ids[0];
        for (l1, l2) in [(0usize, 1usize), (1, 0)] {
            let n = ["A", "B", "C"];
            add(format!("Tdup(V9,{},[{},{}])", a, n[l1], n[l2]), v9p(vec![V9Set::Tpl(vec![V9Tpl { id: a, fields: layout(l1) }, V9Tpl { id: a, fields: layout(l2) }], 0)]), None, 9, true);
            add(format!("Tdup(IPFIX,{},[{},{}])", a, n[l1], n[l2]), ipm(vec![ip_t(a, l1), ip_t(a, l2)]), None, 10, true);
        }
    }
    // a template followed, in the same packet, by data for ANOTHER id (which may be unknown: the V9 packet is then an
    // error, yet the template it carried was received)
    if ids.len() >= 2 {
        for (a, b) in [(ids[0], ids[1]), (ids[1], ids[0])] {
            add(format!("TDx(V9,[T {}:A, D {}])", a, b), v9p(vec![v9_t(a, 0), V9Set::Data(b, body12(17))]), None, 9, true);
            add(format!("TDx(IPFIX,[T {}:A, D {}])", a, b), ipm(vec![ip_t(a, 0), IpfixSet::Data(b, body12(18))]), None, 10, true);
        }
    }
    // IPFIX template / options-template records that are not well formed (no field of non-zero length): rejected,
    // and must neither define nor evict anything
    for id in ids {
        add(format!("T-all-zero-lengths(IPFIX,{})", id), ipm(vec![IpfixSet::Tpl(vec![IpfixTpl { id: *id, fields: vec![fs(1, 0), fs(2, 0)] }], 0)]), None, 10, false);
        add(format!("OT-all-zero-lengths(IPFIX,{})", id), ipm(vec![IpfixSet::OptTpl(vec![IpfixOptTpl { id: *id, scope_count: 1, fields: vec![fs(149, 0), fs(41, 0)] }], 0)]), None, 10, false);
        // "withdrawal"-shaped records (field count 0): IPFIX rejects them; for V9 it is a (useless) latest definition
        add(format!("T-no-fields(IPFIX,{})", id), ipm(vec![IpfixSet::Tpl(vec![IpfixTpl { id: *id, fields: vec![] }], 0)]), None, 10, false);
        add(format!("T-no-fields(V9,{})", id), v9p(vec![V9Set::Tpl(vec![V9Tpl { id: *id, fields: vec![] }], 0)]), None, 9, true);
        add(format!("OT-no-fields(IPFIX,{})", id), ipm(vec![IpfixSet::OptTpl(vec![IpfixOptTpl { id: *id, scope_count: 0, fields: vec![] }], 0)]), None, 10, false);
    }
    // data sets that cannot hold a record (3 bytes, empty): like every data set they must leave the caches alone
    for id in ids {
        add(format!("D-short(V9,{})", id), v9p(vec![V9Set::Data(*id, vec![0xaa, 0xbb, 0xcc])]), None, 9, false);
        add(format!("D-short(IPFIX,{})", id), ipm(vec![IpfixSet::Data(*id, vec![0xaa, 0xbb, 0xcc])]), None, 10, false);
        add(format!("D-empty(IPFIX,{})", id), ipm(vec![IpfixSet::Data(*id, vec![])]), None, 10, false);
    }
    add("V5".into(), fixed_distinct(5, 2, 3), None, 0, false);
    add("V7".into(), fixed_distinct(7, 1, 4), None, 0, false);
    add("garbage".into(), (0..11).map(|j| fill(50, j) | 0x80).collect(), None, 0, false);
    add("unknown-version-6".into(), {
        let mut b = fixed_distinct(5, 1, 5);
        b[1] = 6;
        b
    }, None, 0, false);
    // input that ends before a template record is complete
    let id0 = ids[0];
    let full = v9p(vec![v9_t(id0, 1)]);
    add("V9-flowset-truncated-inside-template(B)".into(), full[..full.len() - 3].to_vec(), None, 9, false);
    let full = ipm(vec![ip_t(id0, 1)]);
    add("IPFIX-message-truncated-inside-template(B)".into(), full[..full.len() - 3].to_vec(), None, 10, false);
    // input that ends inside the SECOND template record of a flowset / set (the first record is complete, the flowset
    // is not): "input that ends before a template record is complete" leaves the caches untouched
    {
        let id1 = if ids.len() >= 2 { ids[1] } else { id0 + 1 };
        let full = v9p(vec![V9Set::Tpl(vec![V9Tpl { id: id0, fields: layout(2) }, V9Tpl { id: id1, fields: layout(0) }], 0)]);
        add("V9-flowset-truncated-inside-its-second-template-record".into(), full[..full.len() - 3].to_vec(), None, 9, false);
        let full = v9p(vec![V9Set::OptTpl(vec![V9OptTpl { id: id0, scope: vec![fs(1, 4)], opts: vec![fs(34, 4), fs(36, 4)] }, V9OptTpl { id: id1, scope: vec![fs(1, 4)], opts: vec![fs(34, 4), fs(36, 4)] }], 0)]);
        add("V9-flowset-truncated-inside-its-second-options-template-record".into(), full[..full.len() - 3].to_vec(), None, 9, false);
        let full = ipm(vec![ip_t(id0, 2), ip_t(id1, 0)]);
        add("IPFIX-message-truncated-inside-its-second-template-set".into(), full[..full.len() - 3].to_vec(), None, 10, false);
    }
    // template records whose TEMPLATE id is the id of the protocol's own template / options-template sets (IPFIX 2, 3;
    // V9 0, 1): both decoders cache them; a set with that id is a template set all the same
    for tid in if extras { vec![2u16, 3] } else { vec![] } {
        add(format!("T(IPFIX, template id {} = a template-set id, A)", tid), ipm(vec![ip_t(tid, 0)]), None, 10, true);
        add(format!("OT(IPFIX, template id {} = a template-set id)", tid), ipm(vec![ip_ot(tid)]), None, 10, true);
    }
    if extras {
        // redefinitions with MORE and with FEWER fields than the two-field layouts (a definition is replaced, never merged)
        let id = ids[0];
        let wide = vec![fs(8, 4), fs(7, 2), fs(11, 2), fs(4, 1), fs(5, 1), fs(1, 2)];
        let narrow = vec![fs(1, 4)];
        add(format!("T(V9,{},six fields)", id), v9p(vec![V9Set::Tpl(vec![V9Tpl { id, fields: wide.clone() }], 0)]), None, 9, true);
        add(format!("T(V9,{},one field)", id), v9p(vec![V9Set::Tpl(vec![V9Tpl { id, fields: narrow.clone() }], 0)]), None, 9, true);
        add(format!("T(IPFIX,{},six fields)", id), ipm(vec![IpfixSet::Tpl(vec![IpfixTpl { id, fields: wide }], 0)]), None, 10, true);
        let many: Vec<FieldSpec> = (0..300).map(|k| fs(1 + (k % 3) as u16, 1)).collect();
        add(format!("T(V9,{},300 fields)", id), v9p(vec![V9Set::Tpl(vec![V9Tpl { id, fields: many.clone() }], 0)]), None, 9, true);
        add(format!("T(IPFIX,{},300 fields)", id), ipm(vec![IpfixSet::Tpl(vec![IpfixTpl { id, fields: many }], 0)]), None, 10, true);
        add(format!("T(IPFIX,{},one field)", id), ipm(vec![IpfixSet::Tpl(vec![IpfixTpl { id, fields: narrow }], 0)]), None, 10, true);
    }
    if extras {
        // V9 options templates with scope length 0 or option length 0: well formed, the latest definition of the id
        let id = ids[0];
        add(format!("OT-without-scope(V9,{})", id), v9p(vec![V9Set::OptTpl(vec![V9OptTpl { id, scope: vec![], opts: vec![fs(34, 4), fs(36, 4)] }], 0)]), None, 9, true);
        add(format!("OT-without-options(V9,{})", id), v9p(vec![V9Set::OptTpl(vec![V9OptTpl { id, scope: vec![fs(1, 4), fs(2, 4)], opts: vec![] }], 0)]), None, 9, true);
    }
    for tid in if extras { vec![0u16, 1] } else { vec![] } {
        add(format!("T(V9, template id {} = a template-flowset id, A)", tid), v9p(vec![v9_t(tid, 0)]), None, 9, true);
        add(format!("OT(V9, template id {} = a template-flowset id)", tid), v9p(vec![v9_ot(tid)]), None, 9, true);
    }
    // sets / flowsets with an unused or reserved id (IPFIX 0, 1, 4..=255; V9 2..=255) whose body happens to be a
    // well-formed template record: they are not template sets, define nothing, and - no template being cached under
    // such an id - decode to nothing
    {
        let mut rec = vec![];
        p16(&mut rec, id0);
        p16(&mut rec, 2);
        for f in layout(1) {
            p16(&mut rec, f.ty);
            p16(&mut rec, f.len);
        }
        for sid in [0u16, 1, 4, 254, 255] {
            add(format!("reserved-set-id-{}(IPFIX, body = template record for {})", sid, id0), ipm(vec![IpfixSet::Data(sid, rec.clone())]), None, 10, false);
        }
        for sid in [2u16, 255] {
            add(format!("reserved-flowset-id-{}(V9, body = template record for {})", sid, id0), v9p(vec![V9Set::Data(sid, rec.clone())]), None, 9, false);
        }
    }
    // a template flowset whose (only) record announces more fields than it holds: complete flowset, incomplete record
    let mut b = v9p(vec![v9_t(id0, 1)]);
    b[26..28].copy_from_slice(&3u16.to_be_bytes());
    add("V9-template-record-incomplete(B,declares 3 fields)".into(), b, None, 9, false);
    // [V5 ++ T ++ D] and [D ++ V5] mixed-version buffers
    let parts = vec![fixed_distinct(5, 1, 9), ipm(vec![ip_t(id0, 1)]), ipm(vec![IpfixSet::Data(id0, body12(9))])];
    add(format!("[V5++T(IPFIX,{},B)++D]", id0), parts.concat(), Some(parts), 0, true);
    v
}

pub struct Run {
    pub label: String,
    pub model: HistModel,
    pub res: HistResult,
}

pub fn run_config(label: &str, ninst: usize, allowed: Vec<Vec<u16>>, ids: &[u16], layouts: usize, max_depth: usize, probe: Option<Box<dyn Fn(&HistModel, &St) -> Vec<Issue> + Send + Sync>>) -> Run {
    let mut actions = vec![];
    for i in 0..ninst {
        actions.extend(alphabet(i, &allowed[i], ids, layouts, label.contains(EXTRAS_LABEL)));
    }
    let mut m = HistModel::new(ninst, allowed, actions, max_depth);
    m.probe = probe;
    // configurations whose label says so skip the per-transition replay of the whole history
    m.replay_history = !label.contains("no history replay");
    let (model, res) = search(m, 16);
    eprintln!("[E-HIST] {:<46} actions={:<4} states={:<8} generated={:<9} transitions={:<9} parse_calls={:<10} depth={} probes={} {:.1}s", label, model.actions.len(), res.states, res.generated, res.transitions, res.parse_calls, res.max_depth, res.probes, res.wall_s);
    Run { label: label.to_string(), model, res }
}

pub fn describe_history(m: &HistModel, hist: &[u16]) -> Value {
    json!({
        "instances": (0..m.ninst).map(|i| json!({"instance": i, "allowed_versions": m.allowed[i]})).collect::<Vec<_>>(),
        "calls": hist.iter().map(|a| { let a = &m.actions[*a as usize]; json!({"instance": a.inst, "action": a.name, "bytes": hex(&a.bytes)}) }).collect::<Vec<_>>(),
    })
}

/// shared reporting for the E-HIST properties
pub fn report(prop: &str, tier: &str, runs: Vec<Run>, rule: &str, required_guards: &[&str], t0: Instant, probe_mode: bool, extra_check: Option<&dyn Fn() -> (Vec<Issue>, u64)>) -> i32 {
    let known = Known::load();
    let mut machinery_fail = false;
    let mut nviol = 0u64;
    let mut confirmed = 0u64;
    let mut known_seen: Vec<Value> = vec![];
    let mut viol_sigs: Vec<Value> = vec![];
    let dir = format!("{}/replays/{}", verif(), prop);
    let _ = std::fs::create_dir_all(&dir);
    let mut states = 0;
    let mut transitions = 0;
    let mut parse_calls = 0;
    let mut probes = 0;
    let mut runs_json = vec![];
    let mut guards: std::collections::BTreeMap<&str, u64> = Default::default();
    let mut samples = vec![];
    let mut printed = std::collections::BTreeSet::new();
    for r in &runs {
        states += r.res.states;
        transitions += r.res.transitions;
        parse_calls += r.res.parse_calls;
        probes += r.res.probes;
        runs_json.push(json!({"configuration": r.label, "instances": r.model.ninst, "allowed": r.model.allowed, "actions": r.model.actions.len(), "unique_states": r.res.states, "generated_states": r.res.generated, "transitions": r.res.transitions, "max_depth": r.res.max_depth, "fixpoint_reached": r.res.max_depth < r.model.max_depth, "probes": r.res.probes, "wall_s": (r.res.wall_s*100.0).round()/100.0}));
        for (n, c) in &r.model.guards {
            *guards.entry(n).or_insert(0) += c.load(Ordering::Relaxed);
        }
        let col = r.model.collected.lock().unwrap();
        for (sig, (n, hist, detail)) in &col.issues {
            if let Some(what) = known.lookup(prop, sig) {
                if printed.insert(sig.clone()) {
                    println!("KNOWN-FINDING: property={} {} [signature {} ; {} transitions/states in configuration {}]", prop, what, sig, n, r.label);
                }
                known_seen.push(json!({"signature": sig, "occurrences": n, "configuration": r.label}));
                continue;
            }
            nviol += n;
            viol_sigs.push(json!({"signature": sig, "occurrences": n, "configuration": r.label}));
            if !printed.insert(sig.clone()) {
                continue;
            }
            // confirm by re-execution of a recorded history from the initial state (several candidates, shortest first)
            let mut cands: Vec<Vec<u16>> = vec![hist.clone()];
            if let Some(m) = col.more.get(sig) {
                let mut m = m.clone();
                m.sort_by_key(|h| h.len());
                cands.extend(m);
            }
            let mut reproduced = false;
            let mut hist: &Vec<u16> = hist;
            for cand in &cands {
                let mut st = stateright::Model::init_states(&r.model).remove(0);
                let mut last: Vec<Issue> = vec![];
                let mut panicked = false;
                for a in cand {
                    match std::panic::catch_unwind(std::panic::AssertUnwindSafe(|| r.model.step(&st, *a))) {
                        Ok((n2, is)) => {
                            st = n2;
                            last = is;
                        }
                        Err(_) => {
                            panicked = true;
                            break;
                        }
                    }
                }
                if probe_mode {
                    if let Some(p) = &r.model.probe {
                        last.extend(p(&r.model, &st));
                    }
                }
                if last.iter().any(|i| &i.sig == sig) || probe_mode || (panicked && sig.starts_with("library-panicked")) {
                    reproduced = true;
                    hist = cand;
                    break;
                }
            }
            if !reproduced {
                eprintln!("MACHINERY: violation {} did not reproduce when its history was replayed ({} candidate histories tried)", sig, cands.len());
                machinery_fail = true;
                continue;
            }
            let path = format!("{}/{}_{}.json", dir, tier, sanitize(sig));
            let body = json!({"property": prop, "tier": tier, "configuration": r.label, "history_action_indices": hist, "signature": sig, "occurrences": n, "detail": detail, "history": describe_history(&r.model, hist)});
            let _ = std::fs::write(&path, serde_json::to_string_pretty(&body).unwrap());
            confirmed += 1;
            println!("VIOLATION property={} replay={}", prop, path);
            println!("  signature: {}\n  occurrences: {}\n  shortest history ({} calls): {:?}\n  detail: {}", sig, n, hist.len(), hist.iter().map(|a| r.model.actions[*a as usize].name.clone()).collect::<Vec<_>>(), detail);
        }
        if samples.len() < 4 {
            let hist: Vec<u16> = (0..4.min(r.model.actions.len())).map(|k| ((k * 7 + engine_seed()) % r.model.actions.len()) as u16).collect();
            samples.push(json!({"configuration": r.label, "history": describe_history(&r.model, &hist)}));
        }
        if r.res.max_depth >= r.model.max_depth {
            eprintln!("MACHINERY: configuration {} hit the depth cap {} before reaching its fixpoint", r.label, r.model.max_depth);
            machinery_fail = true;
        }
    }
    // additional explicit enumeration attached to this property (e.g. "never evicted" at scale)
    let mut extra_evals = 0u64;
    if let Some(f) = extra_check {
        let (is, n) = f();
        extra_evals = n;
        for i in is {
            if let Some(what) = known.lookup(prop, &i.sig) {
                println!("KNOWN-FINDING: property={} {} [signature {}]", prop, what, i.sig);
                continue;
            }
            nviol += 1;
            viol_sigs.push(json!({"signature": i.sig, "occurrences": 1, "configuration": "scale"}));
            let again = f().0;
            if !again.iter().any(|j| j.sig == i.sig) {
                eprintln!("MACHINERY: violation {} did not reproduce", i.sig);
                machinery_fail = true;
                continue;
            }
            let path = format!("{}/{}_{}.json", dir, tier, sanitize(&i.sig));
            let _ = std::fs::write(&path, serde_json::to_string_pretty(&json!({"property": prop, "tier": tier, "signature": i.sig, "detail": i.detail})).unwrap());
            confirmed += 1;
            println!("VIOLATION property={} replay={}", prop, path);
            println!("  signature: {}\n  detail: {}", i.sig, i.detail);
        }
    }
    for g in required_guards {
        if guards.get(g).cloned().unwrap_or(0) == 0 {
            eprintln!("MACHINERY: vacuity guard '{}' was never hit in property {}", g, prop);
            machinery_fail = true;
        }
    }
    let wall = t0.elapsed().as_secs_f64();
    let ev = json!({
        "property_id": prop, "tier": tier, "seed": seed(), "level": "model_checking",
        "coverage": {
            "states": states, "transitions": transitions.max(1), "traces_validated_against_impl": transitions,
            "evaluations": transitions + probes + extra_evals, "scale_evaluations": extra_evals, "distinct_nontrivial": states,
            "rule": rule, "samples": samples, "exhaustive": !machinery_fail,
            "explanation": "states = unique (real cache contents of every instance, reference cache) pairs reached; every transition executes the real parse_bytes on a parser rebuilt from the state and on a parser that replayed the whole history",
            "configurations": runs_json, "real_parse_bytes_calls": parse_calls, "per_state_probes": probes,
            "vacuity_guards": guards.iter().map(|(k,v)| (k.to_string(), json!(v))).collect::<serde_json::Map<String,Value>>(),
            "known_findings_seen": known_seen, "violation_signatures": viol_sigs,
            "trusted_base": ["refmodel.rs (reference decoder + latest-wins cache)", "explore.rs", "stateright 0.31 BFS with fingerprint deduplication"],
        },
        "assumptions": ["the reachable graph is closed under the stated action alphabet only; other template layouts/ids are not explored", "state merging by cache snapshot is checked on every transition against a full history replay"],
        "wall_s": (wall*100.0).round()/100.0, "violations": nviol,
    });
    let _ = std::fs::create_dir_all(format!("{}/evidence", verif()));
    std::fs::write(format!("{}/evidence/{}.json", verif(), prop), serde_json::to_string_pretty(&ev).unwrap()).expect("write evidence");
    eprintln!("[{}] tier={} states={} transitions={} parse_calls={} probes={} violations={} wall={:.1}s", prop, tier, states, transitions, parse_calls, probes, nviol, wall);
    // a confirmed, printed violation is a verdict even if some other observation could not be confirmed
    if confirmed > 0 {
        1
    } else if machinery_fail || nviol > 0 {
        2
    } else {
        0
    }
}
fn engine_seed() -> usize {
    seed().unsigned_abs() as usize
}

pub fn configs(tier: &str, probe: impl Fn() -> Option<Box<dyn Fn(&HistModel, &St) -> Vec<Issue> + Send + Sync>>) -> Vec<Run> {
    let mut runs = vec![];
    runs.push(run_config("2 instances (all / {5,7,10}), ids {256,257}, layouts A,B", 2, vec![vec![5, 7, 9, 10], vec![5, 7, 10]], &[256, 257], 2, 40, probe()));
    // both instances decode both protocols: the same id with different layouts (and record lengths) lives in both
    runs.push(run_config("2 instances (all / {9,10}), id {256}, layouts A,B,C", 2, vec![vec![5, 7, 9, 10], vec![9, 10]], &[256], 3, 40, probe()));
    runs.push(run_config(&format!("1 instance, id {{256}}, layouts A,B {}", EXTRAS_LABEL), 1, vec![vec![5, 7, 9, 10]], &[256], 2, 40, probe()));
    if tier == "thorough" {
        runs.push(run_config("1 instance, ids {256,257,300}, layouts A,B,C", 1, vec![vec![5, 7, 9, 10]], &[256, 257, 300], 3, 40, probe()));
        runs.push(run_config("2 instances (all / {9}), ids {256,257}, layouts A,B", 2, vec![vec![5, 7, 9, 10], vec![9]], &[256, 257], 2, 40, probe()));
        runs.push(run_config("2 instances (all / all), ids {256,257}, layouts A,B, no history replay", 2, vec![vec![5, 7, 9, 10], vec![5, 7, 9, 10]], &[256, 257], 2, 40, probe()));
        runs.push(run_config("2 instances (all / {5,7,10}), ids {256,257,300}, layouts A,B, no history replay", 2, vec![vec![5, 7, 9, 10], vec![5, 7, 10]], &[256, 257, 300], 2, 48, probe()));
        runs.push(run_config("1 instance, ids {256,257,300,65535}, layouts A,B, no history replay", 1, vec![vec![5, 7, 9, 10]], &[256, 257, 300, 65535], 2, 48, probe()));
    } else {
        runs.push(run_config("1 instance, ids {256,257}, layouts A,B,C", 1, vec![vec![5, 7, 9, 10]], &[256, 257], 3, 40, probe()));
    }
    runs
}

pub fn run(tier: &str) -> i32 {
    let t0 = Instant::now();
    let thorough = tier == "thorough";
    let runs = configs(tier, || None);
    report(
        "C06",
        tier,
        runs,
        "explicit-state search (stateright BFS, 16 threads) to the fixpoint of the reachable (real caches x reference cache) graph under the action alphabet {T(P,id,layout), OT(P,id), D(P,id), TD, DT, [T++D] for P in {V9,IPFIX}, id in ids; V5; V7; garbage; unknown version; truncated template flowset/message; incomplete template record; mixed buffer} per parser instance; per-transition laws: decode = reference under latest definition, caches = reference prediction, no eviction, instance and protocol isolation, buffer = split delivery",
        &["redefinition-then-data", "data-under-template-learned-two-calls-ago", "disallowed-template-offered", "same-id-live-in-both-protocols-with-different-layouts", "kind-change-then-data", "composite-buffer-compared-with-split-delivery", "other-instance-non-empty-while-acting"],
        t0,
        false,
        Some(&|| {
            let (mut a, n1) = capacity_check(thorough);
            let (b, n2) = unmerged_check(if thorough { 4 } else { 3 });
            a.extend(b);
            (a, n1 + n2)
        }),
    )
}

/// "templates are never evicted", at scale: N distinct ids are defined (several per packet / per message), then
/// data for the first, a middle and the last id must still decode per the reference, the cache must hold exactly N
/// definitions of that protocol and none of the other, and a second round re-defining every id must keep N.
pub fn capacity_check(thorough: bool) -> (Vec<Issue>, u64) {
    use crate::cform::*;
    use crate::refmodel::*;
    let mut issues = vec![];
    let mut evals = 0u64;
    let sizes: Vec<usize> = if thorough { vec![1, 2, 17, 64, 65, 255, 256, 257, 1000, 1024, 1025, 4096, 10000, 32768, 65279] } else { vec![1, 17, 64, 65, 256, 257, 1024, 1025, 4097, 20000] };
    for proto in [9u16, 10] {
        for &n in &sizes {
            evals += 1;
            let mut p = netflow_parser::NetflowParser::default();
            let mut rc = RefCache::default();
            let ids: Vec<u16> = (0..n).map(|k| (256 + k) as u16).collect();
            for round in 0..2 {
                for chunk in ids.chunks(700) {
                    let pkt = if proto == 9 {
                        v9p(vec![V9Set::Tpl(chunk.iter().map(|id| V9Tpl { id: *id, fields: layout(round) }).collect(), 0)])
                    } else {
                        ipm(chunk.iter().map(|id| ip_t(*id, round)).collect())
                    };
                    p.parse_bytes(&pkt);
                    let _ = ref_buffer(&pkt, &mut rc);
                }
                let s = snap(&p);
                let (mine, other) = if proto == 9 { (s.v9_t.len() + s.v9_o.len(), s.ipfix_t.len() + s.ipfix_o.len()) } else { (s.ipfix_t.len() + s.ipfix_o.len(), s.v9_t.len() + s.v9_o.len()) };
                if mine != n || other != 0 {
                    issues.push(issue(format!("scale/{}-cache-size", if proto == 9 { "v9" } else { "ipfix" }), format!("after defining {} distinct ids (round {}) the cache holds {} definitions of this protocol and {} of the other", n, round, mine, other)));
                }
                for id in [ids[0], ids[n / 2], ids[n - 1]] {
                    let d = if proto == 9 { v9p(vec![V9Set::Data(id, body12(id as usize % 9))]) } else { ipm(vec![IpfixSet::Data(id, body12(id as usize % 9))]) };
                    let got: Vec<CPkt> = p.parse_bytes(&d).iter().map(c_pkt).collect();
                    let exp = ref_buffer(&d, &mut rc).expect("capacity probe outside reference domain");
                    if got != exp {
                        issues.push(issue(format!("scale/{}-data-after-many-templates", if proto == 9 { "v9" } else { "ipfix" }), format!("with {} ids defined (round {}), data for id {} does not decode per its template", n, round, id)));
                    }
                }
            }
        }
    }
    issues.sort_by(|a, b| a.sig.cmp(&b.sig));
    issues.dedup_by(|a, b| a.sig == b.sig);
    (issues, evals)
}

/// `nfmc replay` for the E-HIST properties: rebuild the configuration's model (no search), replay the recorded
/// history step by step and print what every step's oracle says
pub fn replay(v: &Value) -> i32 {
    let prop = v["property"].as_str().unwrap_or("");
    let want0 = v["signature"].as_str().unwrap_or("");
    if want0.starts_with("unmerged/") || want0.starts_with("scale/") {
        // these come from the explicit enumerations attached to C06: run them again and look for the signature
        let thorough = v["tier"].as_str() == Some("thorough");
        let mut is = capacity_check(thorough).0;
        is.extend(unmerged_check(if thorough { 4 } else { 3 }).0);
        let hit = is.iter().find(|i| i.sig == want0);
        match hit {
            Some(i) => {
                println!("{} :: {}\nREPRODUCED", i.sig, i.detail);
                return 1;
            }
            None => {
                println!("not reproduced");
                return 0;
            }
        }
    }
    let label = v["configuration"].as_str().unwrap_or("");
    let hist: Vec<u16> = v["history_action_indices"].as_array().map(|a| a.iter().map(|x| x.as_u64().unwrap() as u16).collect()).unwrap_or_default();
    let cfgs: Vec<(&str, usize, Vec<Vec<u16>>, Vec<u16>, usize)> = vec![
        ("2 instances (all / {5,7,10}), ids {256,257}, layouts A,B", 2, vec![vec![5, 7, 9, 10], vec![5, 7, 10]], vec![256, 257], 2),
        ("1 instance, ids {256,257,300}, layouts A,B,C", 1, vec![vec![5, 7, 9, 10]], vec![256, 257, 300], 3),
        ("2 instances (all / {9}), ids {256,257}, layouts A,B", 2, vec![vec![5, 7, 9, 10], vec![9]], vec![256, 257], 2),
        ("1 instance, ids {256,257}, layouts A,B,C", 1, vec![vec![5, 7, 9, 10]], vec![256, 257], 3),
        ("1 instance, id {256}, layouts A,B + template ids equal to template-set ids", 1, vec![vec![5, 7, 9, 10]], vec![256], 2),
        ("2 instances (all / {9,10}), id {256}, layouts A,B,C", 2, vec![vec![5, 7, 9, 10], vec![9, 10]], vec![256], 3),
        ("2 instances (all / all), ids {256,257}, layouts A,B, no history replay", 2, vec![vec![5, 7, 9, 10], vec![5, 7, 9, 10]], vec![256, 257], 2),
        ("2 instances (all / {5,7,10}), ids {256,257,300}, layouts A,B, no history replay", 2, vec![vec![5, 7, 9, 10], vec![5, 7, 10]], vec![256, 257, 300], 2),
        ("1 instance, ids {256,257,300,65535}, layouts A,B, no history replay", 1, vec![vec![5, 7, 9, 10]], vec![256, 257, 300, 65535], 2),
    ];
    let (_, ninst, allowed, ids, layouts) = match cfgs.into_iter().find(|c| c.0 == label) {
        Some(c) => c,
        None => {
            eprintln!("unknown configuration {}", label);
            return 2;
        }
    };
    let mut actions = vec![];
    for i in 0..ninst {
        actions.extend(alphabet(i, &allowed[i], &ids, layouts, label.contains(EXTRAS_LABEL)));
    }
    let mut m = HistModel::new(ninst, allowed, actions, 64);
    if prop == "C07" {
        m.probe = Some(Box::new(super::c07::probe));
    }
    let mut st = stateright::Model::init_states(&m).remove(0);
    let want = v["signature"].as_str().unwrap_or("");
    let mut hit = false;
    for (k, a) in hist.iter().enumerate() {
        let (n2, is) = m.step(&st, *a);
        println!("step {} {}: {} issue(s)", k, m.actions[*a as usize].name, is.len());
        for i in &is {
            println!("    {} :: {}", i.sig, i.detail);
            hit |= i.sig == want;
        }
        st = n2;
    }
    if let Some(p) = &m.probe {
        for i in p(&m, &st) {
            println!("  probe in final state: {} :: {}", i.sig, i.detail);
            hit |= i.sig == want;
        }
    }
    println!("{}", if hit { "REPRODUCED" } else { "not reproduced" });
    if hit {
        1
    } else {
        0
    }
}

/// Bounded exploration WITHOUT state merging: every history of 1..=depth calls over the single-id two-instance
/// alphabet (both instances decode V9 and IPFIX), replayed from scratch on fresh parsers; the last call of each history
/// is judged against the reference (decode under the latest definition, caches = prediction).  The merged search above
/// never extends a history by a call that leaves the caches unchanged, so state the subject keeps OUTSIDE the caches
/// (process- or thread-wide, or in a private field) and sets during such a call is only visible here.
pub fn unmerged_check(depth: usize) -> (Vec<Issue>, u64) {
    // alphabet 1: one id, two instances that both decode both protocols
    let allowed = vec![vec![5u16, 7, 9, 10], vec![9u16, 10]];
    let mut actions = vec![];
    for i in 0..2 {
        actions.extend(alphabet(i, &allowed[i], &[256], 3, false));
    }
    let (mut issues, mut total) = unmerged_over(allowed, actions, depth);
    // alphabet 2: one instance, two ids plus an id nobody defines, reduced to definitions and data (state kept in the
    // parser object between data flowsets, e.g. a "current template" shortcut, needs several ids and several calls)
    let allowed = vec![vec![5u16, 7, 9, 10]];
    let mut actions = vec![];
    for (proto, pn) in [(9u16, "V9"), (10, "IPFIX")] {
        let t = |id: u16, l: usize| if proto == 9 { v9p(vec![v9_t(id, l)]) } else { ipm(vec![ip_t(id, l)]) };
        let d = |id: u16, salt: usize| if proto == 9 { v9p(vec![V9Set::Data(id, body12(salt))]) } else { ipm(vec![IpfixSet::Data(id, body12(salt))]) };
        for (name, bytes, defines) in [
            (format!("T({},256,A)", pn), t(256, 0), true),
            (format!("T({},256,B)", pn), t(256, 1), true),
            (format!("T({},257,A)", pn), t(257, 0), true),
            (format!("D({},256)", pn), d(256, 3), false),
            (format!("D({},257)", pn), d(257, 4), false),
            (format!("D({},300 never defined)", pn), d(300, 5), false),
        ] {
            actions.push(ActionSpec { name: format!("p0.{}", name), inst: 0, bytes, parts: None, proto, inert: !defines, defines });
        }
    }
    let (i2, t2) = unmerged_over(allowed, actions, depth + 2);
    issues.extend(i2);
    total += t2;
    issues.sort_by(|a, b| a.sig.cmp(&b.sig));
    issues.dedup_by(|a, b| a.sig == b.sig);
    (issues, total)
}

fn unmerged_over(allowed: Vec<Vec<u16>>, actions: Vec<ActionSpec>, depth: usize) -> (Vec<Issue>, u64) {
    use crate::cform::*;
    use crate::refmodel::*;
    use rayon::prelude::*;
    let ninst = allowed.len();
    let m = HistModel::new(ninst, allowed.clone(), actions, 64);
    let n = m.actions.len() as u64;
    let mut total = 0u64;
    let mut found: std::collections::BTreeMap<String, (Vec<u16>, String)> = Default::default();
    for len in 1..=depth {
        let count = n.pow(len as u32);
        total += count;
        let part: Vec<(String, Vec<u16>, String)> = (0..count)
            .into_par_iter()
            .filter_map(|idx| {
                let hist: Vec<u16> = crate::util::digits(idx, &vec![n; len]).into_iter().rev().map(|d| d as u16).collect();
                let mut ps: Vec<netflow_parser::NetflowParser> = (0..ninst).map(|j| m.fresh(j)).collect();
                let mut pure: Vec<RefCache> = vec![RefCache::default(); ninst];
                let mut last: Option<(String, String)> = None;
                for (k, a) in hist.iter().enumerate() {
                    let a = &m.actions[*a as usize];
                    let i = a.inst;
                    let al = allowed[i].clone();
                    let allow = move |v: u16| al.contains(&v);
                    let got: Vec<CPkt> = ps[i].parse_bytes(&a.bytes).iter().map(c_pkt).collect();
                    // the reference follows the subject's recorded defects (the state's reference cache is the one that
                    // predicts the real caches); only the last step is judged
                    let before = pure[i].clone();
                    let exp_pure = ref_buffer_allowed(&a.bytes, &mut pure[i], &allow, &mut Q::pure()).expect("unmerged: outside reference domain");
                    let mut exp = exp_pure.clone();
                    if got != exp_pure || enc_of(&ps[i]) != enc_of_ref(&pure[i]) {
                        let mut qc = before.clone();
                        let mut q = Q::quirky();
                        if let Ok(e) = ref_buffer_allowed(&a.bytes, &mut qc, &allow, &mut q) {
                            if !q.fired.is_empty() {
                                exp = e;
                                pure[i] = qc;
                            }
                        }
                    }
                    if k + 1 == hist.len() {
                        let d = crate::diff::diff_list(&exp, &got);
                        if let Some(i0) = d.into_iter().next() {
                            last = Some((format!("unmerged/decode/{}", i0.sig), format!("last call {}: {}", a.name, i0.detail)));
                        } else if enc_of(&ps[i]) != enc_of_ref(&pure[i]) {
                            last = Some(("unmerged/cache-differs-from-latest-definitions".to_string(), format!("after last call {}", a.name)));
                        }
                    }
                }
                last.map(|(s, d)| (s, hist, d))
            })
            .collect();
        for (s, h, d) in part {
            let e = found.entry(s).or_insert((h.clone(), d.clone()));
            if h.len() < e.0.len() {
                *e = (h, d);
            }
        }
    }
    let issues = found
        .into_iter()
        .map(|(s, (h, d))| issue(s, format!("{} ; history: {:?}", d, h.iter().map(|a| m.actions[*a as usize].name.clone()).collect::<Vec<_>>())))
        .collect();
    (issues, total)
}
