//! Shared finite alphabets: field-spec universes, value menus, class representatives (DESIGN.md §4).
use crate::refmodel::*;
use crate::wire::*;

pub fn widths(c: Class) -> &'static [usize] {
    match c {
        Class::Unsigned | Class::Signed => &[1, 2, 3, 4, 8, 16],
        // 255 / 256: the lengths at which a one-byte length and the variable-length escape value meet
        Class::Str => &[0, 1, 4, 17, 255, 256],
        Class::Vec => &[0, 1, 3, 7, 255],
        Class::Unknown => &[1, 3, 7, 255, 256],
        Class::F64 => &[8],
        Class::DurS | Class::DurMs | Class::DurUs | Class::DurNs => &[4, 8],
        Class::Ip4 => &[4],
        Class::Ip6 => &[16],
        Class::Mac => &[6],
        Class::Proto => &[1],
    }
}

/// value menu for a field of class `c` and width `w`: {0, 1, high bit, all ones, walking pattern} plus the
/// class-specific boundary values
pub fn values(c: Class, w: usize) -> Vec<Vec<u8>> {
    if w == 0 {
        return vec![vec![]];
    }
    let mut v: Vec<Vec<u8>> = vec![];
    v.push(vec![0; w]);
    let mut one = vec![0; w];
    one[w - 1] = 1;
    v.push(one);
    let mut hi = vec![0; w];
    hi[0] = 0x80;
    v.push(hi);
    v.push(vec![0xff; w]);
    v.push((0..w).map(|j| crate::util::fill(3, j)).collect());
    // powers of two and of ten with their neighbours (thresholds of hand-written range checks), truncated to the width
    if matches!(c, Class::Unsigned | Class::Signed | Class::DurS | Class::DurMs | Class::DurUs | Class::DurNs) && w <= 8 {
        let mut extra: Vec<u64> = vec![];
        for k in [7u32, 8, 15, 16, 24, 31, 32, 53, 63] {
            if (k as usize) < w * 8 {
                let p = 1u64 << k;
                extra.extend([p - 1, p, p + 1]);
            }
        }
        let mut t = 10u64;
        while t < u64::MAX / 10 {
            extra.extend([t - 1, t, t + 1]);
            t *= 10;
        }
        extra.extend([30, 31, 255, 256, 65535, 65536, 86_400, 86_400_000, 999_999_999, 1_000_000_000, 4_294_967, 4_294_968]);
        let max = if w == 8 { u64::MAX } else { (1u64 << (w * 8)) - 1 };
        for x in extra {
            if x <= max {
                v.push(x.to_be_bytes()[8 - w..].to_vec());
            }
        }
    }
    match c {
        Class::Ip4 => {
            for a in [[127u8, 0, 0, 1], [10, 0, 0, 1], [224, 0, 0, 1], [192, 168, 1, 255], [169, 254, 0, 1], [100, 64, 0, 1]] {
                v.push(a.to_vec());
            }
        }
        Class::Ip6 => {
            let mk = |head: &[u8], tail: &[u8]| -> Vec<u8> {
                let mut a = vec![0u8; 16];
                a[..head.len()].copy_from_slice(head);
                a[16 - tail.len()..].copy_from_slice(tail);
                a
            };
            v.push(mk(&[], &[0xff, 0xff, 192, 0, 2, 1])); // IPv4-mapped ::ffff:192.0.2.1
            v.push(mk(&[], &[0xff, 0xff, 0, 0, 0, 0])); // ::ffff:0.0.0.0
            v.push(mk(&[], &[192, 0, 2, 1])); // IPv4-compatible ::192.0.2.1
            v.push(mk(&[0x00, 0x64, 0xff, 0x9b], &[192, 0, 2, 1])); // NAT64 64:ff9b::192.0.2.1
            v.push(mk(&[0xfe, 0x80], &[1])); // link-local
            v.push(mk(&[0xff, 0x02], &[1])); // multicast
            v.push(mk(&[0x20, 0x01, 0x0d, 0xb8], &[1])); // documentation
            v.push(mk(&[0x20, 0x02, 192, 0, 2, 1], &[1])); // 6to4
        }
        Class::Proto => {
            v = (0..=255u8).map(|x| vec![x]).collect();
        }
        Class::Str => {
            v.push((0..w).map(|j| b"netflow-parser-verif"[j % 20]).collect());
            // invalid UTF-8: lone continuation byte, overlong, truncated multibyte
            let mut a = vec![b'a'; w];
            a[0] = 0x80;
            v.push(a);
            let mut b = vec![b'z'; w];
            b[w - 1] = 0xe2;
            v.push(b);
            if w >= 4 {
                // characters a JSON writer must escape, and DEL / NUL which it must not drop
                let mut j = vec![b'j'; w];
                j[..4].copy_from_slice(b"\"\\\n\x7f");
                v.push(j);
                let mut z = vec![b'n'; w];
                z[1] = 0;
                z[w - 1] = 0;
                v.push(z);
            }
            if w >= 8 {
                // U+2028 (a line terminator in JavaScript, not in JSON) and a four-byte scalar
                let mut u = vec![b'u'; w];
                u[..7].copy_from_slice("\u{2028}\u{1F600}".as_bytes());
                v.push(u);
            }
            if w >= 4 {
                let mut c4 = vec![b'q'; w];
                c4[..4].copy_from_slice("é€".as_bytes()[..4].try_into().unwrap());
                v.push(c4);
            }
        }
        Class::F64 => {
            v.push(f64::NAN.to_be_bytes().to_vec());
            v.push(f64::INFINITY.to_be_bytes().to_vec());
            v.push(f64::NEG_INFINITY.to_be_bytes().to_vec());
            v.push((-0.0f64).to_be_bytes().to_vec());
            v.push(123.456f64.to_be_bytes().to_vec());
            v.push(0x7ff0_0000_0000_0001u64.to_be_bytes().to_vec()); // signalling NaN
            // doubles that are exactly a single with a long decimal expansion, extremes, subnormals, neighbours of 1
            for x in [0.1f32 as f64, 0.3f32 as f64, (1.0f32 / 3.0) as f64, f32::MAX as f64, f32::MIN_POSITIVE as f64, 16_777_217.0, 0.1f64, f64::MAX, f64::MIN_POSITIVE, f64::EPSILON, 5e-324, 1.0 + f64::EPSILON, 1e15, 1e16, 1e21, 1e-7, 9007199254740993.0, -1.5] {
                v.push(x.to_be_bytes().to_vec());
            }
        }
        Class::Signed => {
            let mut m = vec![0xff; w];
            m[0] = 0x7f;
            v.push(m); // max positive
            let mut n = vec![0xff; w];
            n[w - 1] = 0xfe;
            v.push(n); // -2
            if w >= 8 {
                // fits / does not fit 32 bits
                let mut x = vec![0; w];
                x[w - 4] = 0x80;
                v.push(x); // +2^31
                let mut y = vec![0xff; w];
                y[w - 4] = 0x7f;
                v.push(y); // -2^31-1
            }
        }
        Class::DurS | Class::DurMs | Class::DurUs | Class::DurNs => {
            let mut x = vec![0; w];
            x[w - 2] = 0x03;
            x[w - 1] = 0xe7; // 999
            v.push(x);
            let mut y = vec![0; w];
            y[w - 2] = 0x03;
            y[w - 1] = 0xe8; // 1000
            v.push(y);
        }
        _ => {}
    }
    v
}

const EXTRA_TYPES: [u16; 3] = [32767, 600, 1000];

/// every V9 field type number 1..=520 (+ extras) at every supported width of its class, w > 0
pub fn v9_sweep() -> Vec<FieldSpec> {
    let mut v = vec![];
    for ty in (1u16..=520).chain(EXTRA_TYPES.iter().cloned()).chain([32768 + 5, 65535]) {
        for w in widths(class_v9(ty)) {
            if *w > 0 {
                v.push(fs(ty, *w as u16));
            }
        }
    }
    v
}

/// every IPFIX information element 1..=520 (+ extras) at every supported width, as fixed-length, and for the
/// byte-string classes also as variable-length; plus enterprise-specific variants
pub fn ipfix_sweep() -> Vec<FieldSpec> {
    let mut v = vec![];
    for ty in (0u16..=520).chain(EXTRA_TYPES.iter().cloned()) {
        let c = class_ipfix(&fs(ty, 1));
        for w in widths(c) {
            if *w > 0 {
                v.push(fs(ty, *w as u16));
            }
        }
        if matches!(c, Class::Str | Class::Vec | Class::Unknown) {
            v.push(fs(ty, 65535));
        }
    }
    for (ty, pen) in [(1u16, 9u32), (77, 0xdead_beef), (32767, 1), (0, u32::MAX), (5, 0)] {
        for len in [1u16, 4, 9, 65535] {
            v.push(fse(ty, len, pen));
        }
    }
    v
}

/// class representatives for multi-field V9 templates (one per class/width group)
pub fn v9_reps() -> Vec<FieldSpec> {
    vec![
        fs(5, 1),   // unsigned 1
        fs(7, 2),   // unsigned 2
        fs(31, 3),  // unsigned 3
        fs(1, 4),   // unsigned 4
        fs(2, 8),   // unsigned 8
        fs(3, 16),  // unsigned 16
        fs(8, 4),   // ipv4
        fs(27, 16), // ipv6
        fs(56, 6),  // mac
        fs(4, 1),   // protocol
        fs(21, 4),  // duration ms 4
        fs(153, 8), // duration ms 8
        fs(94, 0),  // string 0
        fs(96, 5),  // string 5
        fs(90, 0),  // vec 0
        fs(95, 3),  // vec 3
        fs(300, 1), // unknown 1
        fs(600, 0), // unknown 0 (zero-length field of a type the library does not know)
        fs(43, 7),  // vendor/unknown 7
    ]
}

/// class representatives for multi-field IPFIX templates
pub fn ipfix_reps() -> Vec<FieldSpec> {
    vec![
        fs(4, 1),       // unsigned 1
        fs(7, 2),       // unsigned 2
        fs(31, 3),      // unsigned 3? (class from table)
        fs(1, 4),       // unsigned 4
        fs(2, 8),       // unsigned 8
        fs(1, 16),      // unsigned 16
        fs(434, 1),     // signed 1
        fs(434, 4),     // signed 4
        fs(8, 4),       // ipv4
        fs(27, 16),     // ipv6
        fs(56, 6),      // mac
        fs(150, 4),     // duration s
        fs(152, 8),     // duration ms
        fs(154, 8),     // duration us
        fs(156, 8),     // duration ns
        fs(320, 8),     // float64
        fs(82, 0),      // string 0
        fs(82, 5),      // string 5
        fs(82, 65535),  // string varlen
        fs(600, 3),     // unknown 3
        fs(601, 0),     // unknown 0
        fs(600, 65535), // unknown varlen
        fse(12, 4, 9),      // enterprise fixed
        fse(12, 65535, 9),  // enterprise varlen
    ]
}

/// all lists over `reps` of length 1..=maxlen, index-addressable
pub fn list_count(n: usize, maxlen: usize) -> u64 {
    (1..=maxlen).map(|l| (n as u64).pow(l as u32)).sum()
}
pub fn list_at(n: usize, maxlen: usize, mut idx: u64) -> Vec<usize> {
    for l in 1..=maxlen {
        let c = (n as u64).pow(l as u32);
        if idx < c {
            let mut v = vec![];
            for _ in 0..l {
                v.push((idx % n as u64) as usize);
                idx /= n as u64;
            }
            return v;
        }
        idx -= c;
    }
    panic!("list_at out of range")
}

/// deterministic byte-distinct value for field k of record r at width w (never all-zero, never all-ones)
pub fn rec_value(r: usize, k: usize, w: usize) -> Vec<u8> {
    (0..w).map(|j| crate::util::fill(r * 5 + k * 11 + 1, j + k * 3)).collect()
}
