//! Counting global allocator.  Per-thread counters (so rayon enumerations do not contend) plus an optional
//! process-wide live-heap budget that ends the process with EXIT_MEMBUDGET (used by the sweep workers:
//! "memory budget exceeded" is an outcome of its own, attributed to the evaluation in flight).
use std::alloc::{GlobalAlloc, Layout, System};
use std::cell::Cell;
use std::sync::atomic::{AtomicI64, AtomicU64, Ordering};

pub const EXIT_MEMBUDGET: i32 = 77;

pub struct Counting;

#[derive(Clone, Copy, Default, Debug)]
pub struct Counters {
    /// cumulative bytes requested
    pub total: u64,
    /// bytes currently live (allocated - freed) on this thread; may go negative if another thread frees
    pub live: i64,
    /// maximum of `live` since last reset
    pub peak: i64,
    /// number of allocation calls
    pub calls: u64,
}

thread_local! {
    static C: Cell<Counters> = const { Cell::new(Counters { total: 0, live: 0, peak: 0, calls: 0 }) };
}

static GLOBAL_LIVE: AtomicI64 = AtomicI64::new(0);
static BUDGET: AtomicU64 = AtomicU64::new(u64::MAX);

pub fn set_budget(bytes: u64) {
    BUDGET.store(bytes, Ordering::SeqCst);
}
pub fn global_live() -> i64 {
    GLOBAL_LIVE.load(Ordering::Relaxed)
}

#[inline]
fn on_alloc(sz: usize) {
    let _ = C.try_with(|c| {
        let mut v = c.get();
        v.total += sz as u64;
        v.calls += 1;
        v.live += sz as i64;
        if v.live > v.peak {
            v.peak = v.live;
        }
        c.set(v);
    });
    // process-wide accounting only when a budget is set (sweep workers): the shared counter would otherwise
    // be a contention point for the 16 enumeration threads
    let budget = BUDGET.load(Ordering::Relaxed);
    if budget == u64::MAX {
        return;
    }
    let g = GLOBAL_LIVE.fetch_add(sz as i64, Ordering::Relaxed) + sz as i64;
    if g > 0 && (g as u64) > budget {
        // cannot unwind out of an allocator: leave at once with the distinguished code
        unsafe { libc::_exit(EXIT_MEMBUDGET) }
    }
}
#[inline]
fn on_free(sz: usize) {
    let _ = C.try_with(|c| {
        let mut v = c.get();
        v.live -= sz as i64;
        c.set(v);
    });
    if BUDGET.load(Ordering::Relaxed) != u64::MAX {
        GLOBAL_LIVE.fetch_sub(sz as i64, Ordering::Relaxed);
    }
}

unsafe impl GlobalAlloc for Counting {
    unsafe fn alloc(&self, l: Layout) -> *mut u8 {
        on_alloc(l.size());
        System.alloc(l)
    }
    unsafe fn dealloc(&self, p: *mut u8, l: Layout) {
        on_free(l.size());
        System.dealloc(p, l)
    }
    unsafe fn alloc_zeroed(&self, l: Layout) -> *mut u8 {
        on_alloc(l.size());
        System.alloc_zeroed(l)
    }
    unsafe fn realloc(&self, p: *mut u8, l: Layout, new: usize) -> *mut u8 {
        // a growing realloc is accounted as "new bytes requested = new size" (the copy is real work)
        on_free(l.size());
        on_alloc(new);
        System.realloc(p, l, new)
    }
}

/// Reset this thread's counters so that `live` and `peak` are measured relative to now.
pub fn reset() {
    C.with(|c| c.set(Counters::default()));
}
pub fn read() -> Counters {
    C.with(|c| c.get())
}
