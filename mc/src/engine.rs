//! E-ENUM: exhaustive, index-addressable enumeration of finite spaces, evaluated in parallel; plus the shared
//! reporting layer (known findings, VIOLATION lines, replay files, evidence files).
use rayon::prelude::*;
use serde_json::{json, Value};
use std::collections::{BTreeMap, HashSet};
use std::time::Instant;

/// root of the verification tree: $VERIF_ROOT (set by ./check to its own directory, so that a snapshot run writes into
/// the snapshot) or /verif
pub fn verif() -> String {
    std::env::var("VERIF_ROOT").ok().filter(|s| !s.is_empty()).unwrap_or_else(|| "/verif".to_string())
}

#[derive(Clone, Debug)]
pub struct Issue {
    /// structural signature: the minimal cause, never raw bytes (matched against known_findings.json)
    pub sig: String,
    pub detail: String,
}
pub fn issue(sig: impl Into<String>, detail: impl Into<String>) -> Issue {
    Issue { sig: sig.into(), detail: detail.into() }
}

#[derive(Clone, Debug, Default)]
pub struct Eval {
    /// hash of the observed outcome (for the distinct-outcome count); 0 = trivial / not counted
    pub key: u64,
    /// number of real `parse_bytes` calls judged in this evaluation
    pub transitions: u64,
    pub issues: Vec<Issue>,
    /// vacuity-guard / class tags hit by this evaluation
    pub tags: Vec<&'static str>,
}

thread_local! {
    /// source location of the last panic on this thread (set by the hook installed in main)
    pub static LAST_PANIC_LOC: std::cell::RefCell<String> = const { std::cell::RefCell::new(String::new()) };
}

pub trait Space: Sync {
    fn name(&self) -> String;
    fn size(&self) -> u64;
    fn eval(&self, idx: u64) -> Eval;
    /// human-readable, self-contained description of evaluation `idx` (hex buffers, configuration)
    fn describe(&self, idx: u64) -> Value;
}

#[derive(Default)]
struct Local {
    evaluations: u64,
    transitions: u64,
    keys: HashSet<u64>,
    tags: BTreeMap<&'static str, u64>,
    /// signature -> (count, first index)
    issues: BTreeMap<String, (u64, u64, String)>,
}
impl Local {
    fn merge(mut self, o: Local) -> Local {
        self.evaluations += o.evaluations;
        self.transitions += o.transitions;
        if self.keys.len() < o.keys.len() {
            let mut k = o.keys;
            k.extend(self.keys.drain());
            self.keys = k;
        } else {
            self.keys.extend(o.keys);
        }
        for (t, n) in o.tags {
            *self.tags.entry(t).or_insert(0) += n;
        }
        for (s, (n, i, d)) in o.issues {
            let e = self.issues.entry(s).or_insert((0, u64::MAX, String::new()));
            e.0 += n;
            if i < e.1 {
                e.1 = i;
                e.2 = d;
            }
        }
        self
    }
}

pub struct SpaceResult {
    pub name: String,
    pub size: u64,
    pub evaluations: u64,
    pub transitions: u64,
    pub keys: HashSet<u64>,
    pub tags: BTreeMap<&'static str, u64>,
    pub issues: BTreeMap<String, (u64, u64, String)>,
    pub wall_s: f64,
}

/// evaluate one index; a panic raised by the LIBRARY on a case of the property's domain means the promised result was
/// not delivered and is reported as a violation of this property (C01 reports it as well, with attribution); a panic
/// raised by the harness itself (generator / reference-domain assertion / bug) is a machinery failure, never a verdict
pub fn eval_caught(sp: &dyn Space, idx: u64) -> Eval {
    match std::panic::catch_unwind(std::panic::AssertUnwindSafe(|| sp.eval(idx))) {
        Ok(e) => e,
        Err(p) => {
            let msg = p.downcast_ref::<String>().cloned().or_else(|| p.downcast_ref::<&str>().map(|s| s.to_string())).unwrap_or_else(|| "panic".into());
            let loc = LAST_PANIC_LOC.with(|l| l.borrow().clone());
            if loc.starts_with("src/") || loc.is_empty() {
                eprintln!("MACHINERY: {}[{}] panicked inside the harness at {}: {}", sp.name(), idx, loc, msg);
                std::process::exit(2);
            }
            let short: String = msg.chars().map(|c| if c.is_ascii_digit() { '#' } else { c }).take(80).collect();
            Eval { key: 0, transitions: 0, issues: vec![issue(format!("library-panicked/{}", short.replace(' ', "-")), format!("panic at {} while evaluating this case: {}", loc, msg))], tags: vec![] }
        }
    }
}

pub fn run_space(sp: &dyn Space) -> SpaceResult {
    let t0 = Instant::now();
    let n = sp.size();
    let l = (0..n)
        .into_par_iter()
        .fold(Local::default, |mut acc, idx| {
            let e = eval_caught(sp, idx);
            acc.evaluations += 1;
            acc.transitions += e.transitions;
            if e.key != 0 {
                acc.keys.insert(e.key);
            }
            for t in e.tags {
                *acc.tags.entry(t).or_insert(0) += 1;
            }
            for i in e.issues {
                let ent = acc.issues.entry(i.sig).or_insert((0, u64::MAX, String::new()));
                ent.0 += 1;
                if idx < ent.1 {
                    ent.1 = idx;
                    ent.2 = i.detail;
                }
            }
            acc
        })
        .reduce(Local::default, Local::merge);
    SpaceResult { name: sp.name(), size: n, evaluations: l.evaluations, transitions: l.transitions, keys: l.keys, tags: l.tags, issues: l.issues, wall_s: t0.elapsed().as_secs_f64() }
}

// ------------------------------------------------------------------------------------------------ known findings

pub struct Known {
    /// (property, signature, what)
    pub findings: Vec<(String, String, String)>,
}
impl Known {
    pub fn load() -> Known {
        let path = format!("{}/known_findings.json", verif());
        let mut findings = vec![];
        if let Ok(s) = std::fs::read_to_string(&path) {
            let v: Value = serde_json::from_str(&s).unwrap_or_else(|e| {
                eprintln!("MACHINERY: cannot parse {}: {}", path, e);
                std::process::exit(2)
            });
            for f in v["findings"].as_array().cloned().unwrap_or_default() {
                findings.push((f["property"].as_str().unwrap_or("").to_string(), f["signature"].as_str().unwrap_or("").to_string(), f["what"].as_str().unwrap_or("").to_string()));
            }
        }
        Known { findings }
    }
    pub fn lookup(&self, prop: &str, sig: &str) -> Option<&str> {
        self.findings.iter().find(|(p, s, _)| p == prop && s == sig).map(|(_, _, w)| w.as_str())
    }
}

// ------------------------------------------------------------------------------------------------ report

pub struct Report {
    pub prop: String,
    pub tier: String,
    pub level: &'static str,
    pub rule: String,
    pub bounds: Value,
    pub assumptions: Vec<String>,
    pub trusted_base: Vec<String>,
    /// tags that must have been hit at least once (vacuity guards)
    pub required_tags: Vec<&'static str>,
    pub extra: BTreeMap<String, Value>,
}

pub fn seed() -> i64 {
    std::env::var("VERIF_SEED").ok().and_then(|s| s.parse().ok()).unwrap_or(0)
}

/// Run every space, report, write evidence, return the process exit code.
pub fn run_report(rep: Report, spaces: Vec<Box<dyn Space>>) -> i32 {
    let t0 = Instant::now();
    let known = Known::load();
    let mut results = vec![];
    for sp in &spaces {
        let r = run_space(sp.as_ref());
        eprintln!("[{}] space {:<40} size={:<10} evals={:<10} distinct={:<8} issues={} {:.1}s", rep.prop, r.name, r.size, r.evaluations, r.keys.len(), r.issues.len(), r.wall_s);
        results.push(r);
    }
    finish(rep, &spaces, results, &known, t0)
}

pub fn finish(rep: Report, spaces: &[Box<dyn Space>], results: Vec<SpaceResult>, known: &Known, t0: Instant) -> i32 {
    let mut evaluations = 0;
    let mut transitions = 0;
    let mut keys: HashSet<u64> = HashSet::new();
    let mut tags: BTreeMap<&'static str, u64> = BTreeMap::new();
    let mut space_json = vec![];
    let mut known_seen: BTreeMap<String, (u64, String)> = BTreeMap::new();
    let mut violations: Vec<(usize, String, u64, u64, String)> = vec![]; // (space, sig, count, idx, detail)
    let mut samples = vec![];
    let sd = seed().unsigned_abs();
    for (si, r) in results.iter().enumerate() {
        evaluations += r.evaluations;
        transitions += r.transitions;
        keys.extend(r.keys.iter().cloned());
        for (t, n) in &r.tags {
            *tags.entry(t).or_insert(0) += n;
        }
        space_json.push(json!({"name": r.name, "size": r.size, "evaluated": r.evaluations, "distinct_outcomes": r.keys.len(), "wall_s": (r.wall_s*100.0).round()/100.0}));
        for (sig, (n, idx, detail)) in &r.issues {
            match known.lookup(&rep.prop, sig) {
                Some(what) => {
                    let e = known_seen.entry(sig.clone()).or_insert((0, what.to_string()));
                    e.0 += n;
                }
                None => violations.push((si, sig.clone(), *n, *idx, detail.clone())),
            }
        }
        if r.size > 0 && samples.len() < 6 {
            let idx = (sd.wrapping_mul(7919).wrapping_add(r.size / 2)) % r.size;
            samples.push(json!({"space": r.name, "index": idx, "case": spaces[si].describe(idx)}));
        }
    }
    for (sig, (n, what)) in &known_seen {
        println!("KNOWN-FINDING: property={} {} [signature {} ; {} evaluations]", rep.prop, what, sig, n);
    }
    // vacuity guards
    let mut machinery_fail = false;
    for t in &rep.required_tags {
        if tags.get(t).cloned().unwrap_or(0) == 0 {
            eprintln!("MACHINERY: vacuity guard '{}' was never hit in property {}", t, rep.prop);
            machinery_fail = true;
        }
    }
    // violations: aggregate by signature over all spaces (first space/index wins), confirm by re-execution,
    // write one replay file per signature
    let mut nviol = 0u64;
    let mut confirmed = 0u64;
    let dir = format!("{}/replays/{}", verif(), rep.prop);
    let _ = std::fs::create_dir_all(&dir);
    violations.sort_by(|a, b| (a.0, a.3).cmp(&(b.0, b.3)));
    let mut by_sig: Vec<(usize, String, u64, u64, String)> = vec![];
    for v in violations.iter() {
        nviol += v.2;
        if let Some(e) = by_sig.iter_mut().find(|e| e.1 == v.1) {
            e.2 += v.2;
        } else {
            by_sig.push(v.clone());
        }
    }
    let violations = by_sig;
    for (k, (si, sig, n, idx, detail)) in violations.iter().enumerate() {
        if k >= 25 {
            println!("  ... {} further violation signatures not printed (all are in the evidence file)", violations.len() - k);
            break;
        }
        // a subject that is itself non-deterministic (random hashing, evictions ...) may not show the same symptom on
        // every execution: re-execute a few times before giving up (16 times for determinism oracles)
        let tries = if sig.starts_with("not-deterministic") { 16 } else { 3 };
        let mut reproduced = false;
        for _ in 0..tries {
            let again = eval_caught(spaces[*si].as_ref(), *idx);
            if again.issues.iter().any(|i| &i.sig == sig) {
                reproduced = true;
                break;
            }
        }
        // a subject that keeps state OUTSIDE the parser (thread-wide, process-wide) shows some symptoms only when the
        // preceding cases of the enumeration ran on the same thread just before: re-execute with 1, 2, 4 ... 64
        // predecessors, in order, on this thread
        let mut predecessors = 0u64;
        if !reproduced {
            for k in [1u64, 2, 4, 8, 16, 64] {
                if *idx < k {
                    break;
                }
                for j in (*idx - k)..*idx {
                    let _ = eval_caught(spaces[*si].as_ref(), j);
                }
                if eval_caught(spaces[*si].as_ref(), *idx).issues.iter().any(|i| &i.sig == sig) {
                    reproduced = true;
                    predecessors = k;
                    break;
                }
            }
        }
        if !reproduced {
            eprintln!("MACHINERY: violation {} at {}[{}] did not reproduce on re-execution", sig, results[*si].name, idx);
            machinery_fail = true;
            continue;
        }
        let path = format!("{}/{}_{}.json", dir, rep.tier, sanitize(sig));
        let body = json!({
            "property": rep.prop, "tier": rep.tier, "space": results[*si].name, "index": idx,
            "signature": sig, "occurrences": n, "detail": detail, "case": spaces[*si].describe(*idx),
            "predecessors_needed": predecessors,
        });
        if predecessors > 0 {
            println!("  note: reproduces only after the {} preceding case(s) of the space were evaluated on the same thread (state kept outside the parser)", predecessors);
        }
        let _ = std::fs::write(&path, serde_json::to_string_pretty(&body).unwrap());
        confirmed += 1;
        println!("VIOLATION property={} replay={}", rep.prop, path);
        println!("  signature: {}\n  occurrences: {}\n  first at: {}[{}]\n  detail: {}", sig, n, results[*si].name, idx, detail);
    }
    let wall = t0.elapsed().as_secs_f64();
    let mut coverage = json!({
        "states": keys.len().max(1),
        "transitions": transitions.max(1),
        "traces_validated_against_impl": evaluations,
        "evaluations": evaluations,
        "distinct_nontrivial": keys.len(),
        "rule": rep.rule,
        "samples": samples,
        "exhaustive": true,
        "bounds": rep.bounds,
        "spaces": space_json,
        "vacuity_guards": tags.iter().map(|(k,v)| (k.to_string(), json!(v))).collect::<serde_json::Map<String,Value>>(),
        "known_findings_seen": known_seen.iter().map(|(s,(n,w))| json!({"signature": s, "evaluations": n, "what": w})).collect::<Vec<_>>(),
        "violation_signatures": violations.iter().map(|v| json!({"signature": v.1, "occurrences": v.2})).collect::<Vec<_>>(),
        "trusted_base": rep.trusted_base,
    });
    for (k, v) in rep.extra {
        coverage[k] = v;
    }
    let ev = json!({
        "property_id": rep.prop, "tier": rep.tier, "seed": seed(), "level": rep.level,
        "coverage": coverage, "assumptions": rep.assumptions, "wall_s": (wall*100.0).round()/100.0, "violations": nviol,
    });
    let _ = std::fs::create_dir_all(format!("{}/evidence", verif()));
    std::fs::write(format!("{}/evidence/{}.json", verif(), rep.prop), serde_json::to_string_pretty(&ev).unwrap()).expect("write evidence");
    eprintln!("[{}] tier={} evaluations={} transitions={} distinct_outcomes={} known={} violations={} wall={:.1}s", rep.prop, rep.tier, evaluations, transitions, keys.len(), known_seen.len(), nviol, wall);
    // a confirmed, printed violation is a verdict even if some other observation could not be confirmed
    if confirmed > 0 {
        1
    } else if machinery_fail || nviol > 0 {
        2
    } else {
        0
    }
}

pub fn sanitize(s: &str) -> String {
    s.chars().map(|c| if c.is_ascii_alphanumeric() || c == '-' { c } else { '_' }).take(60).collect()
}

/// A space given by closures (most drivers use this).
pub struct FnSpace<E, D>
where
    E: Fn(u64) -> Eval + Sync,
    D: Fn(u64) -> Value + Sync,
{
    pub name: String,
    pub size: u64,
    pub eval: E,
    pub describe: D,
}
impl<E, D> Space for FnSpace<E, D>
where
    E: Fn(u64) -> Eval + Sync,
    D: Fn(u64) -> Value + Sync,
{
    fn name(&self) -> String {
        self.name.clone()
    }
    fn size(&self) -> u64 {
        self.size
    }
    fn eval(&self, idx: u64) -> Eval {
        (self.eval)(idx)
    }
    fn describe(&self, idx: u64) -> Value {
        (self.describe)(idx)
    }
}
pub fn space<E, D>(name: &str, size: u64, eval: E, describe: D) -> Box<dyn Space>
where
    E: Fn(u64) -> Eval + Sync + 'static,
    D: Fn(u64) -> Value + Sync + 'static,
{
    Box::new(FnSpace { name: name.to_string(), size, eval, describe })
}

/// A space over an explicit list of cases.
pub fn list_space<C, E, D>(name: &str, cases: Vec<C>, eval: E, describe: D) -> Box<dyn Space>
where
    C: Sync + Send + 'static,
    E: Fn(&C) -> Eval + Sync + 'static,
    D: Fn(&C) -> Value + Sync + 'static,
{
    let cases = std::sync::Arc::new(cases);
    let c2 = cases.clone();
    let n = cases.len() as u64;
    space(name, n, move |i| eval(&cases[i as usize]), move |i| describe(&c2[i as usize]))
}
