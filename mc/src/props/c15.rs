//! C15 — parsing cost is bounded by input size plus output size (E-SWEEP with allocation accounting).
use crate::alloc;
use crate::cform::snap;
use crate::engine::*;
use crate::families::*;
use crate::ladder::ladder_family;
use crate::sweep::*;
use netflow_parser::NetflowParser;
use serde_json::{json, Value};
use std::collections::BTreeMap;
use std::sync::Arc;
use std::time::{Duration, Instant};

// constants of the three laws (DESIGN.md §5 C15)
pub const PEAK_X: u64 = 8;
pub const PEAK_R: u64 = 2;
pub const PEAK_ADD: u64 = 256 << 10;
/// a record being decoded materialises one entry (~60 bytes) per template field before it can fail: proportional to W
pub const PEAK_W: u64 = 64;
pub const OUT_MUL: u64 = 2048;
pub const OUT_ADD: u64 = 64 << 10;
pub const BACKSTOP: u64 = 16384;
pub const GROWTH: f64 = 3.0;
pub const GROWTH_MIN_INPUT: u64 = 4096;
/// wall-time law (ladder only): time per byte of (input + result + templates) at a size where a call takes >= 20 ms may
/// not exceed 6x its minimum at a smaller size; candidates are re-measured alone (one worker) three times and judged on the per-point minima
pub const TIME_GROWTH: f64 = 6.0;
pub const TIME_FLOOR_US: u64 = 20_000;

fn cache_wire_size(p: &NetflowParser) -> u64 {
    let s = snap(p);
    let mut w = 0u64;
    for t in s.v9_t.values().chain(s.ipfix_t.values()).chain(s.v9_o.values()).chain(s.ipfix_o.values()) {
        w += match t {
            crate::cform::CTpl::Plain(_, _, f) => 4 + f.iter().map(|x| if x.pen.is_some() { 8 } else { 4 }).sum::<u64>(),
            crate::cform::CTpl::V9Opt(_, _, _, a, b) => 6 + 4 * (a.len() + b.len()) as u64,
            crate::cform::CTpl::IpfixOpt(_, _, _, f) => 6 + f.iter().map(|x| if x.pen.is_some() { 8 } else { 4 }).sum::<u64>(),
        };
    }
    w
}

/// meas = [|x|, W, T, Pk, R, wall_us]
pub fn exercise(case: &Case, _idx: u64) -> Obs {
    let mut p = NetflowParser::default();
    for h in &case.prior {
        p.parse_bytes(h);
    }
    let w = cache_wire_size(&p);
    let t0 = Instant::now();
    alloc::reset();
    let res = p.parse_bytes(&case.input);
    let c = alloc::read();
    let wall = t0.elapsed().as_micros() as u64;
    let n = res.len() as u64;
    // executable model of the recorded quadratic-copy defect: every decoded packet copies the bytes that follow it
    // (ParsedNetflow.remaining); cursor walk with the wire length implied by each returned packet
    let mut known_copy = 0u64;
    let mut o = 0usize;
    for e in &res {
        let len = match e {
            netflow_parser::NetflowPacket::V5(x) => 24 + 48 * x.header.count as usize,
            netflow_parser::NetflowPacket::V7(x) => 24 + 52 * x.header.count as usize,
            netflow_parser::NetflowPacket::V9(x) => 20 + x.flowsets.iter().map(|s| (s.header.length as usize).max(4)).sum::<usize>(),
            netflow_parser::NetflowPacket::IPFix(x) => (x.header.length as usize).max(16),
            netflow_parser::NetflowPacket::Error(_) => break,
        };
        o = (o + len).min(case.input.len());
        known_copy += (case.input.len() - o) as u64;
    }
    drop(res);
    Obs { key: crate::util::h64(&(c.total, c.peak, n)) | 1, panic: None, meas: vec![case.input.len() as u64, w, c.total, c.peak.max(0) as u64, c.live.max(0) as u64, wall, known_copy], issues: vec![] }
}

pub fn families(tier: &str) -> Vec<(Arc<dyn Family>, Option<Vec<(String, usize)>>)> {
    let thorough = tier == "thorough";
    let (f, labels) = ladder_family(if thorough { None } else { Some(12) }, false);
    let body = if thorough { 40 } else { 16 };
    vec![(f, Some(labels)), (family_a_v9(body), None), (family_a_ipfix(body), None), (family_e(false), None), (family_e(true), None), (family_a2(false, 8), None), (family_a2(true, 8), None)]
}

fn clone_cfg(c: &SweepCfg) -> SweepCfg {
    SweepCfg { binary: c.binary.clone(), mode: c.mode.clone(), tier: c.tier.clone(), family_index: c.family_index, workers: c.workers, horizon: c.horizon, budget: c.budget, chunk: c.chunk }
}

fn per_eval_laws(m: &[u64]) -> Vec<(&'static str, String)> {
    let (x, w, t, pk, r) = (m[0], m[1], m[2], m[3], m[4]);
    let mut v = vec![];
    if pk > PEAK_X * x + PEAK_R * r + PEAK_W * w + PEAK_ADD {
        v.push(("peak-law", format!("peak live {} > {}*|x| + {}*R + {}*W + {} with |x|={} R={} W={}", pk, PEAK_X, PEAK_R, PEAK_W, PEAK_ADD, x, r, w)));
    }
    if r > OUT_MUL * (x + w) + OUT_ADD {
        v.push(("output-law", format!("result size {} > {}*(|x|+W) + {} with |x|={} W={}", r, OUT_MUL, OUT_ADD, x, w)));
    }
    if t > BACKSTOP * (x + r).max(1) {
        v.push(("allocation-backstop", format!("allocated {} > {}*(|x|+R) with |x|={} R={}", t, BACKSTOP, x, r)));
    }
    v
}

struct C15Space {
    cfg: SweepCfg,
    fam: Arc<dyn Family>,
    labels: Option<Vec<(String, usize)>>,
    /// include wall-time candidates in issues_of (only in the isolated re-measurement)
    time_law: bool,
}
impl C15Space {
    fn where_(&self, idx: u64) -> String {
        match &self.labels {
            Some(l) => l[idx as usize].0.clone(),
            None => self.fam.name().split('(').next().unwrap_or("").to_string(),
        }
    }
    fn issues_of(&self, r: &SweepResult) -> BTreeMap<String, (u64, u64, String)> {
        let mut m: BTreeMap<String, (u64, u64, String)> = BTreeMap::new();
        let mut add = |sig: String, idx: u64, detail: String| {
            let e = m.entry(sig).or_insert((0, u64::MAX, String::new()));
            e.0 += 1;
            if idx < e.1 {
                e.1 = idx;
                e.2 = detail;
            }
        };
        for (idx, ms) in &r.meas {
            for (law, d) in per_eval_laws(ms) {
                add(format!("{}/{}", law, self.where_(*idx)), *idx, d);
            }
        }
        for idx in &r.membudget {
            add(format!("memory-budget-exceeded/{}", self.where_(*idx)), *idx, format!("live heap exceeded the {} byte budget of the worker", self.cfg.budget));
        }
        for (idx, msg) in &r.panics {
            add(format!("panic/{}", self.where_(*idx)), *idx, format!("panic (C01's subject): {}", msg));
        }
        for f in &r.fatals {
            add(format!("fatal/{}", self.where_(f.idx)), f.idx, format!("worker died (C01's subject): {}", f.how));
        }
        // growth law over each ladder rung: allocation per byte of input+output must not grow with n
        if let Some(labels) = &self.labels {
            let mut by_rung: BTreeMap<&str, Vec<(usize, u64, f64, f64, u64)>> = BTreeMap::new();
            for (idx, ms) in &r.meas {
                let (name, n) = &labels[*idx as usize];
                let s = (ms[0] + ms[4]).max(1);
                // one decode attempt materialises an entry per template field before it can fail: linear in W, allowed for as in the peak law
                let t = ms[2].saturating_sub(PEAK_W * ms[1]);
                // ... and what the recorded per-packet copy of the remaining buffer explains (ms[6]) is taken out for the second ratio
                let known = ms.get(6).cloned().unwrap_or(0);
                by_rung.entry(name.as_str()).or_default().push((*n, ms[0], t as f64 / s as f64, t.saturating_sub(known) as f64 / s as f64, *idx));
            }
            for (name, mut pts) in by_rung {
                pts.sort_by_key(|p| p.0);
                let mut best: Option<(usize, f64)> = None;
                let mut best_x: Option<(usize, f64)> = None;
                for (n, x, ratio, ratio_x, idx) in pts {
                    if x < GROWTH_MIN_INPUT {
                        continue;
                    }
                    // beyond the recorded copy first: a second super-linear cost on top of the known one has its own signature
                    let mut beyond = false;
                    if let Some((n0, r0)) = best_x {
                        if ratio_x > GROWTH * r0.max(1.0) {
                            beyond = true;
                            add(format!("growth-law-beyond-the-recorded-copy/{}", name), idx, format!("allocated bytes per byte of (input + result), NOT counting the recorded per-packet copy of the remaining buffer, grow from {:.2} at n={} to {:.2} at n={} (more than {}x): super-linear cost", r0, n0, ratio_x, n, GROWTH));
                        }
                        if ratio_x < r0 {
                            best_x = Some((n, ratio_x));
                        }
                    } else {
                        best_x = Some((n, ratio_x));
                    }
                    if let Some((n0, r0)) = best {
                        if ratio > GROWTH * r0 && !beyond {
                            add(format!("growth-law/{}", name), idx, format!("allocated bytes per byte of (input + result) grow from {:.2} at n={} to {:.2} at n={} (more than {}x): super-linear cost", r0, n0, ratio, n, GROWTH));
                        }
                        if ratio < r0 {
                            best = Some((n, ratio));
                        }
                    } else {
                        best = Some((n, ratio));
                    }
                }
            }
        }
        if self.time_law {
            for (sig, idx, d) in self.time_candidates(r) {
                add(sig, idx, d);
            }
        }
        m
    }
    /// wall-time growth candidates per ladder rung
    fn time_candidates(&self, r: &SweepResult) -> Vec<(String, u64, String)> {
        let mut out = vec![];
        if let Some(labels) = &self.labels {
            let mut by_rung: BTreeMap<&str, Vec<(usize, u64, u64, u64)>> = BTreeMap::new();
            for (idx, ms) in &r.meas {
                let (name, n) = &labels[*idx as usize];
                // points whose INPUT is below 4 KiB are left out (as in the allocation growth law): with a large cached
                // template and a tiny buffer the fixed per-call cost is divided by W and deflates the baseline
                if ms[0] < GROWTH_MIN_INPUT {
                    continue;
                }
                by_rung.entry(name.as_str()).or_default().push((*n, (ms[0] + ms[4] + ms[1]).max(1), ms[5], *idx));
            }
            for (name, mut pts) in by_rung {
                pts.sort_by_key(|p| p.0);
                let mut best: Option<(usize, f64)> = None;
                for (n, size, wall, idx) in pts {
                    if size < GROWTH_MIN_INPUT {
                        continue;
                    }
                    let ratio = wall.max(1) as f64 / size as f64;
                    if let Some((n0, r0)) = best {
                        if wall >= TIME_FLOOR_US && ratio > TIME_GROWTH * r0 {
                            out.push((format!("time-growth-law/{}", name), idx, format!("wall time per byte of (input + result + templates) grows from {:.4} us at n={} to {:.4} us at n={} ({} us for this call): super-linear time", r0, n0, ratio, n, wall)));
                        }
                        if ratio < r0 {
                            best = Some((n, ratio));
                        }
                    } else {
                        best = Some((n, ratio));
                    }
                }
            }
        }
        out
    }
}
/// the rung [lo, hi) measured alone (one worker) three times; per point the measurement with the smallest wall time is
/// kept (other processes can only slow a measurement down)
fn solo_min3(cfg: &SweepCfg, fam: &str, lo: u64, hi: u64) -> SweepResult {
    let solo = SweepCfg { workers: 1, chunk: 1, ..clone_cfg(cfg) };
    let mut best = run_range(&solo, fam, lo, hi);
    for _ in 0..2 {
        let rr = run_range(&solo, fam, lo, hi);
        for (idx, ms) in rr.meas {
            if let Some(b) = best.meas.iter_mut().find(|b| b.0 == idx) {
                if ms[5] < b.1[5] {
                    b.1 = ms;
                }
            }
        }
    }
    best
}

impl Space for C15Space {
    fn name(&self) -> String {
        self.fam.name()
    }
    fn size(&self) -> u64 {
        self.fam.size()
    }
    fn eval(&self, idx: u64) -> Eval {
        // re-execution for confirmation: per-evaluation laws on this index; growth-law findings need the whole rung
        let (lo, hi) = match &self.labels {
            Some(l) => {
                let name = &l[idx as usize].0;
                let lo = l.iter().position(|x| &x.0 == name).unwrap() as u64;
                let hi = l.iter().rposition(|x| &x.0 == name).unwrap() as u64 + 1;
                (lo, hi)
            }
            None => (idx, idx + 1),
        };
        // measured alone (one worker), with the wall-time law on
        let r = solo_min3(&self.cfg, &self.fam.name(), lo, hi);
        let me = C15Space { cfg: clone_cfg(&self.cfg), fam: self.fam.clone(), labels: self.labels.clone(), time_law: true };
        Eval { key: 0, transitions: 0, issues: me.issues_of(&r).into_iter().map(|(s, (_, _, d))| issue(s, d)).collect(), tags: vec![] }
    }
    fn describe(&self, idx: u64) -> Value {
        let mut d = self.fam.case(idx).describe();
        if let Some(l) = &self.labels {
            d["rung"] = json!(l[idx as usize].0);
            d["n"] = json!(l[idx as usize].1);
        }
        d
    }
}

pub fn replay_spaces(tier: &str) -> Vec<Box<dyn Space>> {
    let binary = std::env::current_exe().unwrap().to_string_lossy().to_string();
    families(tier)
        .into_iter()
        .enumerate()
        .map(|(fi, (fam, labels))| {
            let cfg = SweepCfg { binary: binary.clone(), mode: "c15".into(), tier: tier.to_string(), family_index: fi, workers: 4, horizon: Duration::from_secs(120), budget: 4 << 30, chunk: 1 };
            Box::new(C15Space { cfg, fam, labels, time_law: true }) as Box<dyn Space>
        })
        .collect()
}

pub fn run(tier: &str) -> i32 {
    let t0 = Instant::now();
    let known = Known::load();
    let mut spaces: Vec<Box<dyn Space>> = vec![];
    let mut results = vec![];
    let binary = std::env::current_exe().unwrap().to_string_lossy().to_string();
    let mut maxima: BTreeMap<String, f64> = BTreeMap::new();
    for (fi, (fam, labels)) in families(tier).into_iter().enumerate() {
        let size = fam.size();
        let cfg = SweepCfg {
            binary: binary.clone(),
            mode: "c15".into(),
            tier: tier.to_string(),
            family_index: fi,
            workers: if labels.is_some() { 8 } else { 16 },
            horizon: Duration::from_secs(120),
            budget: 4 << 30,
            chunk: if labels.is_some() { 1 } else { (size / 256).clamp(1, 20_000) },
        };
        let r = run_range(&cfg, &fam.name(), 0, size);
        let sp = C15Space { cfg, fam, labels, time_law: false };
        let mut issues = sp.issues_of(&r);
        // wall-time law: candidates from the parallel run are re-measured alone three times and judged on the per-point minima
        let cands = sp.time_candidates(&r);
        let mut unconfirmed_time = 0u64;
        if let Some(labels) = &sp.labels {
            let mut rungs: Vec<String> = cands.iter().map(|c| c.0.clone()).collect();
            rungs.sort();
            rungs.dedup();
            for sig in rungs {
                let name = sig.trim_start_matches("time-growth-law/");
                let lo = labels.iter().position(|x| x.0 == name).unwrap() as u64;
                let hi = labels.iter().rposition(|x| x.0 == name).unwrap() as u64 + 1;
                let best = solo_min3(&sp.cfg, &sp.fam.name(), lo, hi);
                match sp.time_candidates(&best).into_iter().find(|c| c.0 == sig) {
                    Some((s2, idx, d)) => {
                        issues.insert(s2, (1, idx, d));
                    }
                    None => unconfirmed_time += 1,
                }
            }
        }
        if unconfirmed_time > 0 {
            eprintln!("[C15] {} wall-time candidate(s) did not repeat when measured alone and were dropped", unconfirmed_time);
        }
        for (_, ms) in &r.meas {
            if !per_eval_laws(ms).is_empty() {
                continue; // maxima are reported over law-abiding evaluations only
            }
            let (x, w, t, pk, rr) = (ms[0] as f64, ms[1] as f64, ms[2] as f64, ms[3] as f64, ms[4] as f64);
            let mut up = |k: &str, v: f64| {
                let e = maxima.entry(k.to_string()).or_insert(0.0);
                if v > *e {
                    *e = v;
                }
            };
            up("max R/(|x|+W)", rr / (x + w).max(1.0));
            up("max T/(|x|+R)", t / (x + rr).max(1.0));
            up("max Pk/(8|x|+2R+64W+256K)", pk / (8.0 * x + 2.0 * rr + 64.0 * w + 262144.0));
        }
        eprintln!("[C15] {:<60} size={:<9} evaluated={:<9} distinct={:<8} issues={} membudget={} {:.1}s", r.name, r.size, r.evaluated, r.keys.len(), issues.len(), r.membudget.len(), r.wall_s);
        if r.evaluated != size {
            eprintln!("MACHINERY: family {} evaluated {} of {}", r.name, r.evaluated, size);
            return 2;
        }
        results.push(SpaceResult { name: sp.name(), size, evaluations: r.evaluated, transitions: r.evaluated, keys: r.keys, tags: Default::default(), issues, wall_s: r.wall_s });
        spaces.push(Box::new(sp));
    }
    let rep = Report {
        prop: "C15".into(),
        tier: tier.into(),
        level: "model_checking",
        rule: "every point of the scale ladder (every structural repetition at n in {1..16, 24, 32, ... x1.33/1.5 ..., max-1, max} up to the 65 535-byte datagram limit; quick: 12 sizes per rung) and every case of the V9 and IPFIX grammar products is executed in an isolated worker whose counting allocator measures T (bytes requested during the call), Pk (peak live above entry), R (bytes live at return), with |x| and W (wire size of cached templates). Laws: Pk <= 8|x| + 2R + 64W + 256 KiB; R <= 2048(|x|+W) + 64 KiB; T <= 16384(|x|+R); and per rung, (T - 64W)/(|x|+R) at any n with |x| >= 4 KiB may not exceed 3x its minimum at a smaller such n (super-linear growth). Distinct by (T, Pk, elements)".into(),
        bounds: json!({"peak_law": "Pk <= 8|x| + 2R + 64W + 262144", "output_law": "R <= 2048(|x|+W) + 65536", "backstop": "T <= 16384(|x|+R)", "growth_law": "(T-64W)/(|x|+R) <= 3 x min at smaller n, |x| >= 4096", "time_growth_law": "wall/(|x|+R+W) <= 6 x min at smaller n with |x| >= 4096, for calls >= 20 ms, judged on the per-point minimum of three isolated re-measurements", "live_heap_budget": 4u64<<30}),
        assumptions: vec!["constants are chosen (about 3x head-room over the measured benign maxima, which are reported under measured_maxima)".into(), "the growth law compares against the minimum ratio at smaller sizes rather than consecutive pairs, because amortised Vec doubling makes consecutive ratios jump by up to 1.5x".into()],
        trusted_base: vec!["alloc.rs counting allocator".into(), "sweep.rs".into()],
        required_tags: vec![],
        extra: [("measured_maxima".to_string(), json!(maxima))].into_iter().collect(),
    };
    finish(rep, &spaces, results, &known, t0)
}
