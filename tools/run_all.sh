#!/bin/bash
# tools/run_all.sh [quick|thorough]   run every registered check in /verif against /repo, print one line per check
cd "$(dirname "$0")/.." || exit 2
T=${1:-quick}
for i in C01 C02 C03 C04 C05 C06 C07 C08 C09 C10 C11 C12 C13 C14 C15 C16 C17; do
  s=$(date +%s); out=$(./check $i --tier $T 2>&1); rc=$?; e=$(date +%s)
  echo "$i rc=$rc $((e-s))s $(echo "$out" | grep -c '^KNOWN-FINDING') known, $(echo "$out" | grep -c '^VIOLATION') violations :: $(echo "$out" | tail -1 | cut -c1-140)"
done
