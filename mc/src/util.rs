//! Small helpers: hex, deterministic hashing, byte pushing.
use std::hash::{Hash, Hasher};

pub fn hex(b: &[u8]) -> String {
    const D: &[u8; 16] = b"0123456789abcdef";
    let mut s = String::with_capacity(b.len() * 2);
    for x in b {
        s.push(D[(x >> 4) as usize] as char);
        s.push(D[(x & 15) as usize] as char);
    }
    s
}

pub fn unhex(s: &str) -> Vec<u8> {
    let s: Vec<u8> = s.bytes().filter(|c| c.is_ascii_hexdigit()).collect();
    s.chunks(2)
        .filter(|c| c.len() == 2)
        .map(|c| {
            let h = |x: u8| (x as char).to_digit(16).unwrap() as u8;
            (h(c[0]) << 4) | h(c[1])
        })
        .collect()
}

/// Deterministic (fixed-key SipHash) 64-bit hash.
pub fn h64<T: Hash + ?Sized>(t: &T) -> u64 {
    #[allow(deprecated)]
    let mut h = std::hash::SipHasher::new_with_keys(0x6e66_6d63, 0x7665_7269);
    t.hash(&mut h);
    h.finish()
}

pub fn p16(v: &mut Vec<u8>, x: u16) {
    v.extend_from_slice(&x.to_be_bytes());
}
pub fn p32(v: &mut Vec<u8>, x: u32) {
    v.extend_from_slice(&x.to_be_bytes());
}
pub fn r16(b: &[u8], o: usize) -> u16 {
    u16::from_be_bytes([b[o], b[o + 1]])
}
pub fn r32(b: &[u8], o: usize) -> u32 {
    u32::from_be_bytes([b[o], b[o + 1], b[o + 2], b[o + 3]])
}

/// Mixed-radix decomposition of an index: returns digits (least significant first) for the given radices.
pub fn digits(mut idx: u64, radices: &[u64]) -> Vec<u64> {
    let mut d = Vec::with_capacity(radices.len());
    for r in radices {
        d.push(idx % r);
        idx /= r;
    }
    d
}
pub fn product(radices: &[u64]) -> u64 {
    radices.iter().product()
}

/// Byte-distinct fill: byte j of unit i.  Avoids 0x00/0xff (those are separate menu values) and never repeats
/// inside a 250-byte window.
pub fn fill(i: usize, j: usize) -> u8 {
    (1 + ((i * 37 + j * 1 + (i / 7) * 3) % 253)) as u8
}

pub fn short(b: &[u8]) -> String {
    if b.len() <= 96 {
        hex(b)
    } else {
        format!("{}..(+{} bytes)", hex(&b[..96]), b.len() - 96)
    }
}
