//! Structural diff between expected (reference) and observed canonical forms.  Signatures name the structural
//! unit that differs (never indices or raw bytes); details carry the indices and values.
use crate::cform::*;
use crate::engine::{issue, Issue};
use crate::util::short;

fn kind(b: &CBody) -> &'static str {
    match b {
        CBody::Tpl(..) => "template",
        CBody::OptTpl(..) => "options-template",
        CBody::Data(..) => "data",
        CBody::OptData(..) => "options-data",
    }
}
fn vkind(v: &CVal) -> &'static str {
    match v {
        CVal::U8(_) => "U8",
        CVal::U16(_) => "U16",
        CVal::U24(_) => "U24",
        CVal::U32(_) => "U32",
        CVal::U64(_) => "U64",
        CVal::U128(_) => "U128",
        CVal::S(_) => "Signed",
        CVal::Str(_) => "String",
        CVal::F64(_) => "Float64",
        CVal::Dur(..) => "Duration",
        CVal::Ip4(_) => "Ip4",
        CVal::Ip6(_) => "Ip6",
        CVal::Mac(_) => "Mac",
        CVal::Bytes(_) => "Vec",
        CVal::Proto(_) => "Proto",
        CVal::Unknown(_) => "Unknown",
    }
}

pub fn diff_fixed(e: &CFixed, g: &CFixed, out: &mut Vec<Issue>) {
    let v = e.version;
    for ((n, a), (_, b)) in e.hdr.iter().zip(g.hdr.iter()) {
        if a != b {
            out.push(issue(format!("v{}/hdr/{}", v, n), format!("expected {:#x} got {:#x}", a, b)));
        }
    }
    if e.recs.len() != g.recs.len() {
        out.push(issue(format!("v{}/record-count", v), format!("expected {} records got {}", e.recs.len(), g.recs.len())));
    }
    for (i, (re, rg)) in e.recs.iter().zip(g.recs.iter()).enumerate() {
        for ((n, a), (_, b)) in re.iter().zip(rg.iter()) {
            if a != b {
                out.push(issue(format!("v{}/rec/{}", v, n), format!("record {}: expected {:#x} got {:#x}", i, a, b)));
            }
        }
    }
    for (i, (a, b)) in e.protos.iter().zip(g.protos.iter()).enumerate() {
        if a != b {
            let num = e.recs[i].iter().find(|(n, _)| *n == "protocol_number").map(|x| x.1).unwrap_or(999);
            out.push(issue(format!("proto-name/{}", num), format!("record {}: protocol {} should be named {} but is named {}", i, num, a, b)));
        }
    }
}

fn diff_tpl(p: &str, e: &CTpl, g: &CTpl, out: &mut Vec<Issue>) {
    if e != g {
        let what = match (e, g) {
            (CTpl::Plain(i1, c1, f1), CTpl::Plain(i2, c2, f2)) => {
                if i1 != i2 {
                    "id"
                } else if c1 != c2 {
                    "field-count"
                } else if f1.len() != f2.len() {
                    "fields-len"
                } else {
                    "field-spec"
                }
            }
            (CTpl::V9Opt(i1, s1, o1, ..), CTpl::V9Opt(i2, s2, o2, ..)) => {
                if i1 != i2 {
                    "id"
                } else if s1 != s2 || o1 != o2 {
                    "lengths"
                } else {
                    "field-spec"
                }
            }
            (CTpl::IpfixOpt(i1, c1, s1, f1), CTpl::IpfixOpt(i2, c2, s2, f2)) => {
                if i1 != i2 {
                    "id"
                } else if c1 != c2 || s1 != s2 {
                    "counts"
                } else if f1.len() != f2.len() {
                    "fields-len"
                } else {
                    "field-spec"
                }
            }
            _ => "kind",
        };
        out.push(issue(format!("{}/template-record/{}", p, what), format!("expected {:?} got {:?}", e, g)));
    }
}

fn diff_flat(p: &str, e: &[CField], g: &[CField], out: &mut Vec<Issue>) {
    if e.len() != g.len() {
        out.push(issue(format!("{}/field-count", p), format!("expected {} decoded fields got {}", e.len(), g.len())));
    }
    for (i, (a, b)) in e.iter().zip(g.iter()).enumerate() {
        if a.0 != b.0 {
            out.push(issue(format!("{}/field-index", p), format!("flat position {}: expected field index {} got {}", i, a.0, b.0)));
            return;
        }
        if a.1 != b.1 {
            out.push(issue(format!("{}/field-name", p), format!("flat position {}: expected {} got {}", i, a.1, b.1)));
            return;
        }
        if a.2 != b.2 {
            let sig = if vkind(&a.2) == vkind(&b.2) { format!("{}/value/{}", p, vkind(&a.2)) } else { format!("{}/value-kind/{}->{}", p, vkind(&a.2), vkind(&b.2)) };
            out.push(issue(sig, format!("flat position {} ({}): expected {:?} got {:?}", i, a.1, a.2, b.2)));
            return;
        }
    }
}

pub fn diff_set(p: &str, i: usize, e: &CSet, g: &CSet, out: &mut Vec<Issue>) {
    if e.id != g.id {
        out.push(issue(format!("{}/set-id", p), format!("set {}: expected id {} got {}", i, e.id, g.id)));
        return;
    }
    if e.len != g.len {
        out.push(issue(format!("{}/set-length", p), format!("set {}: expected length {} got {}", i, e.len, g.len)));
    }
    let pk = format!("{}/{}", p, kind(&e.body));
    match (&e.body, &g.body) {
        (CBody::Tpl(te, pe), CBody::Tpl(tg, pg)) | (CBody::OptTpl(te, pe), CBody::OptTpl(tg, pg)) => {
            if te.len() != tg.len() {
                out.push(issue(format!("{}/record-count", pk), format!("set {}: expected {} template records got {}", i, te.len(), tg.len())));
            }
            for (a, b) in te.iter().zip(tg.iter()) {
                diff_tpl(&pk, a, b, out);
            }
            if pe != pg {
                out.push(issue(format!("{}/padding", pk), format!("set {}: expected padding {} got {}", i, short(pe), short(pg))));
            }
        }
        (CBody::Data(fe, ne, pe), CBody::Data(fg, ng, pg)) | (CBody::OptData(fe, ne, pe), CBody::OptData(fg, ng, pg)) => {
            if let (Some(a), Some(b)) = (ne, ng) {
                if a != b {
                    out.push(issue(format!("{}/record-count", pk), format!("set {}: expected {} records got {}", i, a, b)));
                }
            }
            diff_flat(&pk, fe, fg, out);
            if pe != pg {
                out.push(issue(format!("{}/padding", pk), format!("set {}: expected padding {} got {}", i, short(pe), short(pg))));
            }
        }
        (a, b) => out.push(issue(format!("{}/set-kind/{}->{}", p, kind(a), kind(b)), format!("set {} (id {})", i, e.id))),
    }
}

pub fn diff_var(e: &CVar, g: &CVar, out: &mut Vec<Issue>) {
    let p = if e.version == 9 { "v9" } else { "ipfix" };
    for (i, (a, b)) in e.hdr.iter().zip(g.hdr.iter()).enumerate() {
        if a != b {
            out.push(issue(format!("{}/hdr/{}", p, i), format!("header field {}: expected {:#x} got {:#x}", i, a, b)));
        }
    }
    if e.sets.len() != g.sets.len() {
        out.push(issue(format!("{}/set-count", p), format!("expected {} sets got {}", e.sets.len(), g.sets.len())));
    }
    for (i, (a, b)) in e.sets.iter().zip(g.sets.iter()).enumerate() {
        diff_set(p, i, a, b, out);
    }
}

pub fn diff_pkt(k: usize, e: &CPkt, g: &CPkt, out: &mut Vec<Issue>) {
    match (e, g) {
        (CPkt::Fixed(a), CPkt::Fixed(b)) if a.version == b.version => diff_fixed(a, b, out),
        (CPkt::Var(a), CPkt::Var(b)) if a.version == b.version => diff_var(a, b, out),
        (CPkt::Error(ka, ra), CPkt::Error(kb, rb)) => {
            if ka != kb {
                out.push(issue("error/kind", format!("element {}: expected error {} got {}", k, ka, kb)));
            }
            if ra != rb {
                out.push(issue("error/remaining", format!("element {}: expected remaining {} got {}", k, short(ra), short(rb))));
            }
        }
        (CPkt::Error(ka, _), g) => out.push(issue(format!("expected-error-got-packet/v{}", g.version().unwrap_or(0)), format!("element {}: expected error {} got a packet", k, ka))),
        (e, CPkt::Error(kb, _)) => out.push(issue(format!("expected-packet-got-error/v{}", e.version().unwrap_or(0)), format!("element {}: expected a packet got error {}", k, kb))),
        (e, g) => out.push(issue("packet-version", format!("element {}: expected version {:?} got {:?}", k, e.version(), g.version()))),
    }
}

pub fn diff_list(e: &[CPkt], g: &[CPkt]) -> Vec<Issue> {
    let mut out = vec![];
    if e.len() != g.len() {
        out.push(issue("result-length", format!("expected {} elements got {}", e.len(), g.len())));
    }
    for (k, (a, b)) in e.iter().zip(g.iter()).enumerate() {
        diff_pkt(k, a, b, &mut out);
    }
    out
}
