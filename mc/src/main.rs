//! nfmc — bounded-exhaustive model checking harness for netflow_parser (see /verif/DESIGN.md).
mod alloc;
mod alphabet;
mod cform;
mod diff;
mod engine;
mod iana;
mod props;
mod refmodel;
mod util;
mod wire;

#[global_allocator]
static A: alloc::Counting = alloc::Counting;

fn main() {
    let args: Vec<String> = std::env::args().collect();
    if args.len() < 2 {
        eprintln!("usage: nfmc run <ID> <quick|thorough> | nfmc replay <file>");
        std::process::exit(2);
    }
    let threads = std::env::var("NFMC_THREADS").ok().and_then(|s| s.parse().ok()).unwrap_or(16);
    rayon::ThreadPoolBuilder::new().num_threads(threads).stack_size(16 << 20).build_global().ok();
    let code = match args[1].as_str() {
        "run" => {
            let id = args.get(2).map(|s| s.as_str()).unwrap_or("");
            let tier = args.get(3).map(|s| s.as_str()).unwrap_or("quick");
            match id {
                "C03" => props::c03::run(tier),
                "C04" => props::c04::run(tier),
                "C05" => props::c05::run(tier),
                "C08" => props::c08::run(tier),
                _ => {
                    eprintln!("unknown property {}", id);
                    2
                }
            }
        }
        _ => 2,
    };
    std::process::exit(code);
}
