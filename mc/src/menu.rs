//! Packet menu M for history / partition / filter explorations (DESIGN.md §4).
use crate::util::fill;
use crate::wire::*;

pub const SELF_DELIMITING: usize = 17;
pub const TOTAL: usize = 30;
pub const NAMES: [&str; 30] = [
    "V5x0", "V5x2", "V7x1", "V9-T", "V9-D", "V9-TD", "V9-OT+OD", "IPFIX-T", "IPFIX-D", "IPFIX-TD", "IPFIX-T'", "IPFIX-D(absent id)", "IPFIX-header-only(16 bytes)", "V9-count-0(20 bytes)", "V7x0", "V9-D+T'(data then redefinition)", "IPFIX-D+T(data then redefinition)",
    "V9-D(absent id)", "version-6", "version-0", "garbage", "V9 truncated inside a template",
    "V9-T with version 0x0109", "V5x2 with version 0x0105", "IPFIX-T with version 0x010a", "V7x1 with version 0x0107", "V9-T with version 0x0900",
    "one byte 0x00", "one byte 0x05", "one byte 0x09",
];
// indices of the packets that are not self-delimiting / erroring
pub const V9_D_ABSENT: usize = 17;
pub const VERSION_6: usize = 18;
pub const VERSION_0: usize = 19;
pub const GARBAGE: usize = 20;
pub const V9_TRUNCATED: usize = 21;
/// well-formed packets whose version field differs from a real version only in its high byte (or is byte-swapped):
/// unknown versions, whatever a filter or dispatcher that narrows the number makes of them
pub const ALIASES: [usize; 5] = [22, 23, 24, 25, 26];

/// one 12-byte record followed by (salt mod 4) zero bytes of padding, so that set lengths cover every alignment
fn body12(salt: usize) -> Vec<u8> {
    let mut b: Vec<u8> = (0..12).map(|j| fill(salt, j)).collect();
    b[6] = 6;
    b.extend(std::iter::repeat(0).take(salt % 4));
    b
}

/// V9 packet / IPFIX message whose header fields (source id / observation domain, sequence number, clocks) vary
/// with the salt: neighbours in a buffer then come from "different exporters" - the caches are per parser and
/// protocol, never per source
fn h9(salt: usize, sets: Vec<V9Set>) -> Vec<u8> {
    let mut p = V9Pkt::new(sets);
    p.source_id = 0x0c0d_0e00 + (salt % 5) as u32;
    p.seq = 0x0a0b + salt as u32;
    p.sys_up_time += salt as u32 * 1000;
    v9_packet(&p)
}
fn h10(salt: usize, sets: Vec<IpfixSet>) -> Vec<u8> {
    let mut m = IpfixMsg::new(sets);
    m.odid = 0x3e4f_5a00 + (salt % 3) as u32;
    m.seq = 0x1c2d + salt as u32;
    m.export_time += salt as u32;
    ipfix_message(&m)
}

/// packet k of the menu; `salt` varies the data bytes so that repeated packets stay distinguishable
pub fn packet(k: usize, salt: usize) -> Vec<u8> {
    let v9a = V9Tpl { id: 256, fields: vec![fs(8, 4), fs(7, 2), fs(4, 1), fs(5, 1), fs(1, 4)] };
    let v9o = V9OptTpl { id: 258, scope: vec![fs(1, 4)], opts: vec![fs(34, 2), fs(36, 2)] };
    let ia = IpfixTpl { id: 256, fields: vec![fs(8, 4), fs(7, 2), fs(4, 1), fs(5, 1), fs(1, 4)] };
    let ib = IpfixTpl { id: 256, fields: vec![fs(2, 8), fs(82, 4)] };
    match k {
        0 => fixed_distinct(5, 0, salt),
        1 => fixed_distinct(5, 2, salt),
        2 => fixed_distinct(7, 1, salt),
        3 => h9(salt, vec![V9Set::Tpl(vec![v9a], 0)]),
        4 => h9(salt, vec![V9Set::Data(256, body12(salt))]),
        5 => h9(salt, vec![V9Set::Tpl(vec![v9a], 0), V9Set::Data(256, body12(salt + 1))]),
        6 => h9(salt, vec![V9Set::OptTpl(vec![v9o], if salt % 2 == 0 { 2 } else { 0 }), V9Set::Data(258, { let mut b = body12(salt + 2)[..8].to_vec(); b.extend(std::iter::repeat(0).take(salt % 3)); b })]),
        7 => h10(salt, vec![IpfixSet::Tpl(vec![ia], 0)]),
        8 => h10(salt, vec![IpfixSet::Data(256, body12(salt + 3))]),
        9 => h10(salt, vec![IpfixSet::Tpl(vec![ia], 0), IpfixSet::Data(256, body12(salt + 4))]),
        10 => h10(salt, vec![IpfixSet::Tpl(vec![ib], 0)]),
        11 => h10(salt, vec![IpfixSet::Data(999, body12(salt + 5))]),
        // the two shortest packets there are: nothing but a header
        12 => h10(salt, vec![]),
        13 => h9(salt, vec![]),
        14 => fixed_distinct(7, 0, salt),
        // data for 256 followed, in the same packet, by a redefinition of 256 (parsing such a packet twice is not idempotent);
        // independent of the position, so that a sequence can hold two byte-identical adjacent packets
        15 => v9_packet(&V9Pkt::new(vec![V9Set::Data(256, body12(7)), V9Set::Tpl(vec![V9Tpl { id: 256, fields: vec![fs(2, 8), fs(96, 4)] }], 0)])),
        16 => ipfix_message(&IpfixMsg::new(vec![IpfixSet::Data(256, body12(8)), IpfixSet::Tpl(vec![IpfixTpl { id: 256, fields: vec![fs(8, 4), fs(7, 2), fs(4, 1), fs(5, 1), fs(1, 4)] }], 0)])),
        17 => h9(salt, vec![V9Set::Data(999, body12(salt + 6))]),
        18 => {
            let mut b = fixed_distinct(5, 1, salt);
            b[1] = 6;
            b
        }
        19 => {
            let mut b = fixed_distinct(5, 0, salt);
            b[1] = 0;
            b
        }
        20 => (0..9).map(|j| fill(salt + 77, j) | 0x80).collect(),
        // a one-byte tail: no version field to filter on
        27 => vec![0x00],
        28 => vec![0x05],
        29 => vec![0x09],
        22 | 23 | 24 | 25 | 26 => {
            let (base, ver) = [(3usize, 0x0109u16), (1, 0x0105), (7, 0x010a), (2, 0x0107), (3, 0x0900)][k - 22];
            let mut b = packet(base, salt);
            b[..2].copy_from_slice(&ver.to_be_bytes());
            b
        }
        _ => {
            let b = v9_packet(&V9Pkt::new(vec![V9Set::Tpl(vec![v9a], 0)]));
            b[..b.len() - 6].to_vec()
        }
    }
}

/// buffer = concatenation of menu packets `seq` (salt = position)
pub fn chain(seq: &[usize]) -> Vec<u8> {
    seq.iter().enumerate().flat_map(|(pos, k)| packet(*k, pos * 13 + 1)).collect()
}

/// four prior cache states used by the configuration/filter explorations
pub fn prior_state(k: usize) -> Vec<Vec<u8>> {
    match k {
        0 => vec![],
        1 => vec![packet(3, 90), packet(7, 91)],
        2 => vec![packet(10, 92), packet(6, 93)],
        _ => vec![packet(3, 94), packet(6, 95), packet(7, 96), packet(10, 97)],
    }
}

/// all subsets of {5,7,9,10} x extras {none, {6}, {0,11,65535}}
pub fn allowed_set(k: usize) -> Vec<u16> {
    let mut v = vec![];
    for (bit, ver) in [5u16, 7, 9, 10].iter().enumerate() {
        if (k >> bit) & 1 == 1 {
            v.push(*ver);
        }
    }
    match k / 16 {
        1 => v.push(6),
        2 => v.extend([0, 11, 65535]),
        // numbers that alias 5, 7, 9, 10 under the usual shortcuts (mod 16/32/64/128/256 masks and tables, byte swap)
        3 => v.extend([21, 23, 25, 26, 37, 39, 41, 42, 69, 71, 73, 74, 133, 135, 137, 138, 261, 263, 265, 266, 0x0500, 0x0700, 0x0900, 0x0a00]),
        _ => {}
    }
    v
}
pub const NALLOWED: u64 = 64;
