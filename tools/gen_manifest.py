#!/usr/bin/env python3
"""Writes /verif/MANIFEST.json from the table below (single source of truth for the interface)."""
import json
P = {}
def add(pid, cat, text, note, technique, design_ref, engine):
    P[pid] = dict(cat=cat, text=text, note=note, technique=technique, design_ref=design_ref, engine=engine)

add("C01", "model_checking",
    "Every case of finite, index-addressable families is executed on the real parser inside an isolated worker process on a 2 MiB thread under catch_unwind, with abnormal exits (signals, aborts, hangs beyond a 60 s horizon) attributed to the exact index: grammar product with adversarial templates x body lengths x fills x delivery x length/count deviations (V9 and IPFIX), every single-byte deviation (all 256 values) and every truncation of every seed under 3-5 cache states, structural deviations, all buffers of <=2 bytes, and the scale ladder of every structural repetition up to the 65 535-byte datagram limit in release and dev profiles; every returned value is re-exported, converted and serialised.",
    "coverage is the stated families, not all byte strings; non-termination is judged against an explicit horizon; live-heap budget overruns are counted as C15's subject",
    "bounded-exhaustive execution sweep with subprocess fault attribution (stateless exploration of real code)", "DESIGN.md §5 C01", "E-SWEEP")
add("C02", "model_checking",
    "Every case of the C01 families (grammar product A, single-byte deviations/truncations/structural deviations B, tiny buffers D) and every chain of <=3 (thorough 4) packets over the 17-packet menu under 4 prior cache states is run under every allowed-version set of the stated menu (all 16 subsets of {5,7,9,10} x extras); the decomposition law is decided from input bytes and returned list alone by a cursor walk using the wire length implied by each packet's own header (a V9 element may not hold more flowsets than its header announces).",
    "trusted: c02::decomposition_issues; cases on which the library panics are left to C01",
    "bounded-exhaustive enumeration of (history, buffer, configuration) with a relational oracle", "DESIGN.md §5 C02", "E-ENUM")
add("C03", "exploration",
    "Bounded-exhaustive enumeration of V5/V7 input shapes on the real parse_bytes against an independent offset-table decoder: every byte offset x all 256 values of two byte-distinct packets, all field pairs x boundary values, three-record packets whose middle record differs from its neighbours in exactly one byte (every byte, two values), every count 0..=65535 over short and maximal buffers, every materialisable record count, all 256 protocol numbers, every proper prefix. Stateless property over inputs, so exhaustive enumeration of the shape space is the deciding step.",
    "trusted: reference decoder refmodel::ref_fixed and the IANA keyword table mc/src/iana.rs; byte values beyond the walking-byte/boundary alphabets are not covered",
    "bounded-exhaustive input enumeration vs reference decoder (explicit-state, stateless)", "DESIGN.md §5 C03", "E-ENUM")
add("C06", "model_checking",
    "Explicit-state model checking of the real template caches: stateright BFS to the FIXPOINT of the reachable graph whose states are (canonical content of the real caches of every parser instance, reference latest-wins cache) and whose transitions apply one action of an about 70-action-per-instance alphabet (T/OT/D/TD/DT/[T++D] for V9 and IPFIX over two or three ids and two or three layouts, the same from another exporter (other source id / observation domain), multi-record template flowsets incl. one id defined twice, flowsets/messages truncated inside their first or second template record, sets with unused or reserved ids whose body is a well-formed template record, ill-formed and withdrawal-shaped template records, definitions with 300 fields (in the one-instance configuration that also uses template ids equal to template-set ids), record-less data sets, V5, V7, garbage, unknown version, truncated and incomplete templates, mixed buffer) with the real parse_bytes, on two instances with different allowed sets. Every transition checks: decode = reference under the latest definition; caches = reference prediction (so inert input changes nothing); no eviction; instance and protocol isolation; buffer = one-packet-per-call delivery; and soundness of state merging (parser rebuilt from the snapshot vs parsers that replayed the full interleaved history). Complemented by (a) a bounded exploration WITHOUT state merging - every history of <=3 (thorough 4) calls over the single-id two-instance alphabet, last call judged against the reference - which sees state kept outside the caches, and (b) an explicit never-evicted-at-scale enumeration (up to 65 279 distinct ids).",
    "closed under the stated alphabet only; trusted: refmodel.rs, explore.rs, stateright's fingerprint deduplication",
    "explicit-state model checking of the implementation (stateright BFS to fixpoint) against a reference model", "DESIGN.md §5 C06", "E-HIST")
add("C07", "model_checking",
    "In EVERY state of C06's reachable graph (same stateright search, probes evaluated once per unique state) data for every (instance, protocol, id) the state lacks - including ids known only to the other protocol or the other parser instance - is offered alone, as first/middle/last set, and after other packets in the buffer: no decoded records, V9 packet is the final error, IPFIX keeps earlier sets, caches and earlier packets unchanged, and the same bytes decode per the reference once the template arrives.",
    "closed under C06's alphabet; trusted: refmodel.rs, explore.rs",
    "explicit-state model checking with per-state probes (stateright BFS to fixpoint)", "DESIGN.md §5 C07", "E-HIST")
add("C08", "exploration",
    "Exhaustive enumeration of the C03 input spaces under the oracle to_be_bytes(parse(x)) == occupied slice, and of all pairs of struct fields x boundary values x record position x counts {0,1,2,3,max} under the oracle parse(to_be_bytes(s)) == s.",
    "trusted: the slice a packet occupied is computed by the reference layout; struct domain restricted to count == flowsets.len() and protocol_type consistent with protocol_number",
    "bounded-exhaustive round-trip enumeration (explicit-state, stateless)", "DESIGN.md §5 C08", "E-ENUM")

add("C04", "model_checking",
    "Explicit enumeration of conformant V9 streams (histories of 1..3 parse_bytes calls on one parser) from finite menus - every field type 1..=520 x supported width x value menu, all class-representative templates of <=4 (thorough 5) fields, all scope/option lists, all flowset sequences of <=3 (thorough 5) over a 12-set menu, template delivered in the same packet / same buffer / an earlier call, and record counts around every power of two up to the datagram limit - each call judged against an independent RFC 3954 reference decoder with a latest-wins reference cache.",
    "trusted: refmodel::ref_v9/decode; the field-number -> (name, class) table is the library's (pinned by its snapshot tests); values outside the value menus and templates longer than the bound are not covered",
    "bounded-exhaustive enumeration of call histories vs reference model (explicit-state)", "DESIGN.md §5 C04", "E-ENUM")
add("C05", "model_checking",
    "Explicit enumeration of conformant IPFIX streams (1..3 calls): every IE 0..=520 (+enterprise variants) x supported width x value menu, variable-length IEs x every pair of consecutive record lengths from {0,1,2,254,255,300} x short/long prefix, all class-representative templates of <=4 (thorough 5) fields, options templates, 1..=3 template records per set, all set sequences of <=3 (thorough 5) over a 12-set menu incl. data for an undefined id, and record counts around every power of two up to the message limit - each call judged against an independent RFC 7011 reference decoder; recorded defects are modelled executably so the strongest remaining relation is still checked.",
    "trusted: refmodel::ref_ipfix_sets/decode and the defect models refmodel::Q; IE -> (name, class) table is the library's",
    "bounded-exhaustive enumeration of call histories vs reference model (explicit-state)", "DESIGN.md §5 C05", "E-ENUM")

add("C09", "model_checking",
    "Every V9 packet returned by parse_bytes anywhere in C04's conformant stream spaces and in the grammar-product / byte-deviation families (accepted deviants, with cached templates) is re-exported and compared with the slice it occupied; differences are attributed per flowset (re-exported in isolation) and per field using the template that governed decoding, so each recorded lossy field class has its own signature and any other difference is a violation.",
    "trusted: reexport.rs; occupied slice computed from the packet's own flowset lengths (C02's law)",
    "bounded-exhaustive enumeration of call histories with a round-trip oracle (explicit-state)", "DESIGN.md §5 C09", "E-ENUM")
add("C10", "model_checking",
    "Same construction as C09 for IPFIX over C05's spaces and the IPFIX grammar-product / byte-deviation families: every returned message is re-exported and compared with the header.length bytes it occupied, with per-set and per-field attribution (variable-length prefixes, enterprise bits, padding, unreported sets).",
    "trusted: reexport.rs",
    "bounded-exhaustive enumeration of call histories with a round-trip oracle (explicit-state)", "DESIGN.md §5 C10", "E-ENUM")
add("C11", "model_checking",
    "Every sequence of 1..=5 (thorough 6) packets over the 18-packet menu (17 self-delimiting packets and V9 data for an absent id; a sequence whose only failing packet is its last one is in the domain; header fields - source id, observation domain, sequence number, clocks - varying with the position) (all four versions, templates defined by early packets and needed by later ones, IPFIX data for an absent id) is delivered under ALL 2^(n-1) partitions into consecutive parse_bytes calls on a fresh parser; concatenated results and final cache snapshot must equal one-packet-per-call delivery. Every sequence of <=4 packets over a 13-packet large-cache menu (1 100 definitions per packet; an options template empty on both sides; one id announced as an options template in two layouts and as a plain template, each followed by its data) likewise. Maximal chains up to the datagram limit are compared all-in-one vs one-per-call.",
    "sequences whose one-per-call run contains an error element are outside the property's domain (counted, not judged); trusted: c11::judge",
    "bounded-exhaustive enumeration of sequences x all partitions (stateless exploration of real code, differential oracle)", "DESIGN.md §5 C11", "E-ENUM")
add("C12", "model_checking",
    "All 64 allowed-version sets (16 subsets of {5,7,9,10} x extras {none, {6}, {0,11,65535}, 24 numbers aliasing 5/7/9/10 under mod-2^k masks and byte swap}) x every buffer of 1..=3 (thorough 4) packets over a 29-packet menu (incl. three one-byte tails and five well-formed packets whose version field aliases a real one in its low byte or byte-swapped) x 6 prior histories delivered under the configuration (two contain unparsable versions and garbage) and 3 delivered before the configuration is narrowed, the buffer delivered twice; EVERY call of the history is compared with a parser that allows all 65 536 versions started from the state the subject should be in: result = maximal leading part with allowed versions; caches = those of the all-allowing parser fed only that part; unknown allowed versions are UnknownVersion errors; allowed_versions itself is unchanged by every call; independently of the all-allowing run, every result must be a decomposition of its buffer that ends silently only in front of a version outside S (C02's law); and on two fresh parsers carrying the same configuration and history the flattening helper parse_bytes_as_netflow_common_flowsets must return exactly the flows of what parse_bytes reports and leave the same caches.",
    "trusted: c12::judge",
    "bounded-exhaustive enumeration of configurations x buffers x states (differential oracle)", "DESIGN.md §5 C12", "E-ENUM")
add("C13", "model_checking",
    "Parser and conversion are run together over: V5/V7 walking-byte and all materialised counts; V9 and IPFIX templates made of EVERY subset of the projected fields (2048 subsets: source/destination address each absent/IPv4/IPv6/both, ports, protocol, first, last, MACs) in three field orders, 1..=3 records, 1..=2 data sets; every value of the class value menus (thresholds, special-purpose addresses, all 256 protocol numbers) in every projected field; the full template together with every subset template in one packet; all-zero/all-ones values of every projected field; and the flattening helper over all chains of <=3 (thorough 4) packets x 4 prior cache states. The expected view is the projection of the independent reference decode (one flow per record, member = decoded field, None iff the template lacks it).",
    "trusted: refmodel.rs and c13::project; IPv4 is projected when both address families are present",
    "bounded-exhaustive enumeration of template subsets vs projection of the reference model", "DESIGN.md §5 C13", "E-ENUM")
add("C14", "fault_enumeration",
    "Every cut point strictly inside every seed packet (V5/V7 with 0,1,2,3,30(,max) records; V9 and IPFIX template / data / template+data packets over pairs of class representatives (thorough: all pairs), options packets, multi-template multi-data packets with padding and a long-form variable-length value; V9 flowset boundaries excluded as the property says) in 309 contexts - alone, after a V5 packet, after the template packet it needs in the same buffer, and after every sequence of one or two self-delimiting packets of the 17-packet menu: the last element must be an error carrying exactly the truncated packet, earlier elements unchanged, and V5/V7/IPFIX caches unchanged.",
    "seed validity (decodes without error, single packet) is asserted at run time; trusted: c14::judge",
    "exhaustive fault (truncation point) enumeration on the real parser", "DESIGN.md §5 C14", "E-ENUM")

add("C15", "model_checking",
    "Every point of the scale ladder (every structural repetition the formats allow - records per set, sets per message, template records per set, fields per template, packets per buffer, variable-length lengths, zero-length-field templates, announced counts over short bodies, the V9 retry loop, templates whose fields under-declare their length, and n = 1..32 768 already-cached definitions of either kind followed by one fixed maximal definition or data buffer or by a buffer packed with minimal packets - at n in {1..16, 24, 32, ... , max-1, max} up to the datagram limit) and every case of the V9/IPFIX grammar products is executed in an isolated worker whose counting global allocator measures bytes requested, peak live and bytes live at return; three fixed laws (peak, output, total/backstop) are judged per evaluation, a growth law per ladder rung (allocation beyond 64 bytes per byte of cached template, per byte of input+output, may not grow more than 3x with n; judged a second time on the allocation beyond an executable model of the recorded per-packet copy) and a conservative wall-time growth law (6-fold growth of time per byte against the best smaller size with at least 4 KiB of input, for calls of at least 20 ms) judged on the minimum of three isolated re-measurements.",
    "the constants of the laws are chosen with head-room over the measured benign maxima (reported in the evidence); coverage is the ladder and the grammar product, not all buffers; trusted: alloc.rs, sweep.rs",
    "bounded-exhaustive execution sweep with allocation accounting (stateless exploration of real code)", "DESIGN.md §5 C15", "E-SWEEP")
add("C16", "model_checking",
    "Every parse result of C04's and C05's conformant stream spaces (every field type x width x value menu incl. 128-bit extremes, NaN/inf/-0.0, invalid UTF-8, empty values), V5/V7 walking byte, and the byte-deviation / truncation / tiny-buffer families (error elements with arbitrary remaining bytes), 48 large failing packets (300 .. 65 000 bytes), plus streams that define up to 4097 (thorough 9000) template ids and then send data for every id, is serialised with serde_json::to_writer: must succeed, parse with the harness' own order-preserving reader, be byte-identical when repeated and across two parser instances fed the same history, and equal the tree built by hand from the decoded structure (exact number tokens, floats by bit pattern, record keys in ascending field index).",
    "trusted: json.rs and c16::expected (serde derive conventions of the public types, pinned by the repository's YAML snapshots)",
    "bounded-exhaustive enumeration of results with an independent reader and hand-built expected tree", "DESIGN.md §5 C16", "E-ENUM")
add("C17", "model_checking",
    "Step 0 builds the library with --no-default-features (failure is the violation). Then the default build and the feature-off build of the same harness each walk every index of C04's and C05's conformant stream spaces, recording a digest of (decoded results, re-export, common view) per index: known-only streams must agree exactly between the builds; streams with a field the library types Unknown must yield no decoded record containing it in the feature-off build (and do yield it in the default build), and their known-only PACKETS (classified by the reference decode of the bytes) must agree between the builds too; two further stream spaces redefine an id across packets between a definition with an unknown field and a known-only one, in both directions; two more announce V9 / IPFIX options templates with an unknown field at every position of the scope or option part, data in the same packet or in a later call.",
    "trusted: c17::observe; enterprise-specific fields are outside the unknown-field clause",
    "cross-configuration differential enumeration over the bounded stream spaces", "DESIGN.md §5 C17", "E-ENUM")

ALL = ["C%02d" % i for i in range(1, 18)]
PENDING = {}
checks = []
for pid in ALL:
    if pid not in P: continue
    p = P[pid]
    checks.append({
        "property_id": pid,
        "quick_cmd": f"./check {pid} --tier quick",
        "thorough_cmd": f"./check {pid} --tier thorough",
        "evidence_file": f"/verif/evidence/{pid}.json",
        "replay_cmd_template": "./check replay {path}",
        "engine": p["engine"],
        "level_claimed": {"category": p["cat"], "text": p["text"], "design_ref": p["design_ref"]},
        "level_note": p["note"],
        "technique": p["technique"],
    })
na = [{"property_id": pid, "reason": PENDING.get(pid, "check not built yet in this session (planned, see DESIGN.md §5); nothing is claimed for it until it runs")} for pid in ALL if pid not in P]
m = {
    "version": 1,
    "setup_cmd": "cd /verif/mc && CARGO_NET_OFFLINE=true cargo build --release --offline && CARGO_NET_OFFLINE=true cargo build --offline && (CARGO_NET_OFFLINE=true cargo build --release --offline --no-default-features --target-dir /verif/mc/target-nf || true)",
    "hooks": {
        "guard": "netflow_parser_verif",
        "enable": "no hooks are needed: every observation point is public API; the harness crate /verif/mc path-depends on /repo and is rebuilt by ./check on every run",
        "baseline_off_cmd": "cd /repo && cargo test --workspace --no-fail-fast --offline",
        "source_commits": [],
        "add_only": True,
    },
    "engines": [
        {"name": "E-SWEEP", "path": "/verif/mc/src/sweep.rs", "serves_properties": [c["property_id"] for c in checks if c["engine"] == "E-SWEEP"], "kind_free_text": "exhaustive evaluation of index ranges in isolated worker processes (2 MiB thread, catch_unwind, counting allocator with live-heap budget, heartbeat watchdog); abnormal exits are attributed to the index in flight"},
        {"name": "E-HIST", "path": "/verif/mc/src/explore.rs", "serves_properties": [c["property_id"] for c in checks if c["engine"] == "E-HIST"], "kind_free_text": "explicit-state search over call histories on stateright 0.31 (parallel BFS, fingerprint deduplication): states are real cache contents x reference cache, transitions call the real parse_bytes"},
        {"name": "E-ENUM", "path": "/verif/mc/src/engine.rs", "serves_properties": [c["property_id"] for c in checks if c["engine"] == "E-ENUM"], "kind_free_text": "index-addressable exhaustive enumeration of finite input/history/configuration spaces on the real parser, rayon-parallel, judged against a reference model or a relational law"},
    ],
    "checks": checks,
    "not_applicable": na,
    "notes": "exit 0 = held (KNOWN-FINDING lines allowed), 1 = VIOLATION, 2 = machinery failure (build error, vacuity guard, irreproducible violation). Known findings: /verif/known_findings.json.",
}
json.dump(m, open("/verif/MANIFEST.json", "w"), indent=1)
print("claimed:", [c["property_id"] for c in checks])
