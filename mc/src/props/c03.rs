//! C03 — V5 and V7 packets decode exactly per the Cisco fixed layouts (E-ENUM, stateless).
use crate::cform::*;
use crate::diff::diff_list;
use crate::engine::*;
use crate::refmodel::{ref_buffer, RefCache};
use crate::util::*;
use crate::wire::*;
use netflow_parser::NetflowParser;
use serde_json::json;

/// judge one buffer made of V5/V7 material against the offset-table reference
pub fn judge(buf: &[u8]) -> Eval {
    let mut p = NetflowParser::default();
    let got: Vec<CPkt> = p.parse_bytes(buf).iter().map(c_pkt).collect();
    let exp = ref_buffer(buf, &mut RefCache::default()).expect("C03 generator produced a non-v5/v7 buffer");
    let mut issues = diff_list(&exp, &got);
    if snap(&p).size() != 0 {
        issues.push(issue("cache-touched", "a V5/V7 buffer changed the template caches"));
    }
    Eval { key: h64(&got), transitions: 1, issues, tags: vec![] }
}

fn desc(buf: &[u8]) -> serde_json::Value {
    json!({"calls": [hex(buf)], "allowed": "default"})
}

const VALS: [u64; 5] = [0, 1, 0x8000_0000_0000_0000, u64::MAX, 0xa5c3_96e1_7b2d_4f08];
fn field_val(k: usize, width: usize) -> Vec<u8> {
    let v = match k {
        0 => 0u64,
        1 => 1,
        2 => 1u64 << (width * 8 - 1),
        3 => u64::MAX >> (64 - width * 8),
        _ => VALS[4] >> (64 - width * 8),
    };
    v.to_be_bytes()[8 - width..].to_vec()
}

pub fn spaces(tier: &str) -> Vec<Box<dyn Space>> {
    let thorough = tier == "thorough";
    let mut v: Vec<Box<dyn Space>> = vec![];
    for version in [5u16, 7] {
        let rs = rec_size(version);
        // (a) walking byte over two byte-distinct base packets (2 records each, followed by a 1-record packet of the
        // other version so that the end of the packet is observable)
        for salt in [0usize, 91] {
            let mut base = fixed_distinct(version, 2, salt);
            let plen = base.len();
            base.extend(fixed_distinct(12 - version, 1, salt + 5));
            let b2 = base.clone();
            v.push(space(
                &format!("v{}-walking-byte-salt{}", version, salt),
                ((plen - 2) * 256) as u64,
                move |i| {
                    let mut b = base.clone();
                    b[2 + (i / 256) as usize] = (i % 256) as u8;
                    judge(&b)
                },
                move |i| {
                    let mut b = b2.clone();
                    b[2 + (i / 256) as usize] = (i % 256) as u8;
                    desc(&b)
                },
            ));
        }
        // (b) boundary values on every field, all pairs of fields x 5x5 values, 2-record packet, field in record 1
        {
            let htab: Vec<(usize, usize)> = if version == 5 { V5_HDR.iter().skip(2).map(|x| (x.1, x.2)).collect() } else { V7_HDR.iter().skip(2).map(|x| (x.1, x.2)).collect() };
            let rtab: Vec<(usize, usize)> = if version == 5 { V5_REC.iter().map(|x| (24 + rs + x.1, x.2)).collect() } else { V7_REC.iter().map(|x| (24 + rs + x.1, x.2)).collect() };
            let fields: Vec<(usize, usize)> = htab.into_iter().chain(rtab.into_iter()).collect();
            let nf = fields.len() as u64;
            let base = fixed_distinct(version, 2, 17);
            let mk = move |i: u64| {
                let d = digits(i, &[nf, nf, 5, 5]);
                let mut b = base.clone();
                let (o1, w1) = fields[d[0] as usize];
                let (o2, w2) = fields[d[1] as usize];
                b[o1..o1 + w1].copy_from_slice(&field_val(d[2] as usize, w1));
                b[o2..o2 + w2].copy_from_slice(&field_val(d[3] as usize, w2));
                b
            };
            let mk2 = mk.clone();
            v.push(space(&format!("v{}-field-pairs", version), nf * nf * 25, move |i| judge(&mk(i)), move |i| desc(&mk2(i))));
        }
        // (c) every count 0..=65535 against buffers holding 0, 1, 3 and (thorough) the maximal number of records
        let maxrec = (65535 - 24) / rs;
        let held = vec![0usize, 1, 3, 30, maxrec];
        for h in held {
            let base = fixed_distinct(version, h, 3);
            let b2 = base.clone();
            v.push(space(
                &format!("v{}-all-counts-over-{}-records", version, h),
                65536,
                move |c| {
                    let mut b = base.clone();
                    b[2..4].copy_from_slice(&(c as u16).to_be_bytes());
                    judge(&b)
                },
                move |c| {
                    let mut b = b2.clone();
                    b[2..4].copy_from_slice(&(c as u16).to_be_bytes());
                    json!({"count": c, "buffer_len": b.len(), "buffer_prefix": short(&b)})
                },
            ));
        }
        // every materialisable count with byte-distinct records (exact packets)
        {
            let top = maxrec;
            v.push(space(
                &format!("v{}-materialised-counts-0..={}", version, top),
                top as u64 + 1,
                move |n| judge(&fixed_distinct(version, n as usize, 7)),
                move |n| json!({"records": n, "salt": 7}),
            ));
        }
        // (d) all 256 protocol numbers at record 0 and record 1
        {
            v.push(space(
                &format!("v{}-all-protocol-numbers", version),
                512,
                move |i| {
                    let mut b = fixed_distinct(version, 2, 23);
                    b[24 + (i / 256) as usize * rs + 38] = (i % 256) as u8;
                    judge(&b)
                },
                move |i| json!({"protocol_number": i % 256, "record": i / 256}),
            ));
        }
        // (e) every proper prefix
        let mut prefix_of = vec![0usize, 1, 2, 3, 30, maxrec];
        if thorough {
            prefix_of.push(maxrec / 2);
        }
        for n in prefix_of {
            let full = fixed_distinct(version, n, 11);
            let f2 = full.clone();
            v.push(space(&format!("v{}-every-prefix-of-{}-records", version, n), full.len() as u64, move |cut| judge(&full[..cut as usize]), move |cut| json!({"records": n, "cut": cut, "buffer_prefix": short(&f2[..cut as usize])})));
        }
    }
    v
}

pub fn run(tier: &str) -> i32 {
    let rep = Report {
        prop: "C03".into(),
        tier: tier.into(),
        level: "exploration",
        rule: "every index of each listed space is evaluated: walking byte (every offset x 256 values), all field pairs x 5x5 boundary values, every count 0..=65535 over buffers holding 0/1/3/30/max records, every materialisable record count, all 256 protocol numbers, every proper prefix; an evaluation is non-trivial/distinct by the hash of the canonical result list".into(),
        bounds: json!({"versions": [5,7], "counts": "0..=65535", "protocol_numbers": "0..=255", "max_records": "datagram limit (1364 / 1259)"}),
        assumptions: vec!["IANA keyword per protocol number is the table typed into mc/src/iana.rs (spelling of the library's enum)".into()],
        trusted_base: vec!["reference offset-table decoder refmodel::ref_fixed".into()],
        required_tags: vec![],
        extra: Default::default(),
    };
    run_report(rep, spaces(tier))
}
