//! E-HIST: explicit-state search over call histories (stateright, parallel BFS with state deduplication).
//! A state is the canonical content of the REAL template caches of every parser instance paired with the reference
//! cache; the history that reached it is carried along but excluded from hashing/equality, so histories reaching the
//! same (implementation state, reference state) are merged.  Every transition applies one action with the real
//! `parse_bytes`; soundness of merging is checked on every transition by also replaying the whole history on fresh
//! parsers.  Violations and vacuity guards are collected through side channels so that the search always runs to
//! its fixpoint (stateright stops at the first discovery of each property otherwise).
use crate::cform::*;
use crate::diff::diff_list;
use crate::engine::{issue, Issue};
use crate::refmodel::*;
use crate::util::*;
use netflow_parser::variable_versions::{ipfix, v9};
use netflow_parser::{NetflowPacket, NetflowParser};
use stateright::{Checker, Model, Property};
use std::collections::{BTreeMap, HashMap};
use std::hash::{Hash, Hasher};
use std::sync::atomic::{AtomicU64, Ordering};
use std::sync::Mutex;

#[derive(Clone, Debug)]
pub struct ActionSpec {
    pub name: String,
    pub inst: usize,
    pub bytes: Vec<u8>,
    /// for a buffer made of several packets: the packets, to be compared with one-call-per-packet delivery
    pub parts: Option<Vec<Vec<u8>>>,
    /// 9 / 10 when the action consists only of packets of that version (protocol-isolation law), else 0
    pub proto: u16,
    /// the action must not change any cache (V5/V7, data only, garbage, truncated, disallowed version)
    pub inert: bool,
    /// the action carries at least one complete template record (whether or not its version is allowed)
    pub defines: bool,
}

#[derive(Clone)]
enum TplObj {
    V9T(v9::Template),
    V9O(v9::OptionsTemplate),
    IpT(ipfix::Template),
    IpO(ipfix::OptionsTemplate),
}

/// (map: 0 v9.templates, 1 v9.options_templates, 2 ipfix.templates, 3 ipfix.options_templates ; id ; hash of definition)
pub type Enc = Vec<(u8, u16, u64)>;

pub fn enc_of(p: &NetflowParser) -> Enc {
    let s = snap(p);
    let mut v = vec![];
    for (m, map) in [&s.v9_t, &s.v9_o, &s.ipfix_t, &s.ipfix_o].iter().enumerate() {
        for (id, t) in map.iter() {
            v.push((m as u8, *id, h64(&(m as u8, t))));
        }
    }
    v.sort();
    v
}

/// canonical lib-side encoding that the reference cache predicts (latest definition of either kind per id)
pub fn enc_of_ref(r: &RefCache) -> Enc {
    let mut v = vec![];
    let ctf9 = |f: &crate::wire::FieldSpec| CTplField { ty: f.ty, name: name_v9(f.ty), len: f.len, pen: None };
    let ctfi = |f: &crate::wire::FieldSpec| CTplField { ty: f.ty, name: name_ipfix(f), len: f.len, pen: f.pen };
    for (id, t) in &r.v9 {
        match t {
            RefTpl::Plain(f) => {
                let c = CTpl::Plain(*id, f.len() as u16, f.iter().map(ctf9).collect());
                v.push((0u8, *id, h64(&(0u8, &c))));
            }
            RefTpl::V9Opt(s, o) => {
                let c = CTpl::V9Opt(
                    *id,
                    (s.len() * 4) as u16,
                    (o.len() * 4) as u16,
                    s.iter().map(|f| CTplField { ty: f.ty, name: format!("Scope:{:?}", netflow_parser::variable_versions::v9_lookup::ScopeFieldType::from(f.ty)), len: f.len, pen: None }).collect(),
                    o.iter().map(ctf9).collect(),
                );
                v.push((1u8, *id, h64(&(1u8, &c))));
            }
            _ => {}
        }
    }
    for (id, t) in &r.ipfix {
        match t {
            RefTpl::Plain(f) => {
                let c = CTpl::Plain(*id, f.len() as u16, f.iter().map(ctfi).collect());
                v.push((2u8, *id, h64(&(2u8, &c))));
            }
            RefTpl::IpfixOpt(sc, f) => {
                let c = CTpl::IpfixOpt(*id, f.len() as u16, *sc, f.iter().map(ctfi).collect());
                v.push((3u8, *id, h64(&(3u8, &c))));
            }
            _ => {}
        }
    }
    v.sort();
    v
}

#[derive(Clone, Debug)]
pub struct St {
    pub hist: Vec<u16>,
    pub enc: Vec<Enc>,
    pub refc: Vec<RefCache>,
}
impl Hash for St {
    fn hash<H: Hasher>(&self, h: &mut H) {
        self.enc.hash(h);
        self.refc.hash(h);
    }
}
impl PartialEq for St {
    fn eq(&self, o: &St) -> bool {
        self.enc == o.enc && self.refc == o.refc
    }
}
impl Eq for St {}

#[derive(Default)]
pub struct Collected {
    /// signature -> (count, shortest history, detail)
    pub issues: BTreeMap<String, (u64, Vec<u16>, String)>,
    /// a few more histories per signature (confirmation tries them in turn: with hidden process- or thread-wide state in
    /// the subject, the shortest one may owe its failure to an unrelated earlier evaluation and not repeat)
    pub more: BTreeMap<String, Vec<Vec<u16>>>,
}

pub struct HistModel {
    pub ninst: usize,
    pub allowed: Vec<Vec<u16>>,
    pub actions: Vec<ActionSpec>,
    registry: HashMap<u64, TplObj>,
    pub collected: Mutex<Collected>,
    pub transitions: AtomicU64,
    pub parse_calls: AtomicU64,
    pub guards: Vec<(&'static str, AtomicU64)>,
    /// per-unique-state probe (C07), given (model, state)
    pub probe: Option<Box<dyn Fn(&HistModel, &St) -> Vec<Issue> + Send + Sync>>,
    pub probes_run: AtomicU64,
    pub max_depth: usize,
    /// replay the whole interleaved history on fresh parsers at every transition (soundness of merging states by cache
    /// content); switched off in the largest thorough configurations, whose alphabets are covered with it elsewhere
    pub replay_history: bool,
}

pub const GUARDS: [&str; 8] = [
    "redefinition-then-data",
    "data-under-template-learned-two-calls-ago",
    "disallowed-template-offered",
    "same-id-live-in-both-protocols-with-different-layouts",
    "kind-change-then-data",
    "data-for-absent-id-in-non-empty-cache",
    "composite-buffer-compared-with-split-delivery",
    "other-instance-non-empty-while-acting",
];

impl HistModel {
    pub fn new(ninst: usize, allowed: Vec<Vec<u16>>, actions: Vec<ActionSpec>, max_depth: usize) -> HistModel {
        // registry of every template object any action can define (harvested from a fully-allowing parser)
        let mut registry = HashMap::new();
        for a in &actions {
            let mut p = NetflowParser::default();
            p.parse_bytes(&a.bytes);
            let s = snap(&p);
            for (k, t) in &p.v9_parser.templates {
                registry.insert(h64(&(0u8, &s.v9_t[k])), TplObj::V9T(t.clone()));
            }
            for (k, t) in &p.v9_parser.options_templates {
                registry.insert(h64(&(1u8, &s.v9_o[k])), TplObj::V9O(t.clone()));
            }
            for (k, t) in &p.ipfix_parser.templates {
                registry.insert(h64(&(2u8, &s.ipfix_t[k])), TplObj::IpT(t.clone()));
            }
            for (k, t) in &p.ipfix_parser.options_templates {
                registry.insert(h64(&(3u8, &s.ipfix_o[k])), TplObj::IpO(t.clone()));
            }
        }
        HistModel {
            ninst,
            allowed,
            actions,
            registry,
            collected: Mutex::new(Collected::default()),
            transitions: AtomicU64::new(0),
            parse_calls: AtomicU64::new(0),
            guards: GUARDS.iter().map(|g| (*g, AtomicU64::new(0))).collect(),
            probe: None,
            probes_run: AtomicU64::new(0),
            max_depth,
            replay_history: true,
        }
    }
    pub fn guard(&self, name: &str) {
        if let Some((_, c)) = self.guards.iter().find(|(n, _)| *n == name) {
            c.fetch_add(1, Ordering::Relaxed);
        }
    }
    pub fn fresh(&self, i: usize) -> NetflowParser {
        new_parser(Some(&self.allowed[i]))
    }
    /// parser whose caches hold exactly the definitions of `enc` (through the public fields); None if the encoding
    /// names a definition that no action can define
    pub fn rebuild(&self, i: usize, enc: &Enc) -> Option<NetflowParser> {
        let mut p = self.fresh(i);
        for (_, id, h) in enc {
            match self.registry.get(h)? {
                TplObj::V9T(t) => {
                    p.v9_parser.templates.insert(*id, t.clone());
                }
                TplObj::V9O(t) => {
                    p.v9_parser.options_templates.insert(*id, t.clone());
                }
                TplObj::IpT(t) => {
                    p.ipfix_parser.templates.insert(*id, t.clone());
                }
                TplObj::IpO(t) => {
                    p.ipfix_parser.options_templates.insert(*id, t.clone());
                }
            }
        }
        Some(p)
    }
    /// replay the WHOLE history, every instance's calls interleaved in their original order, on fresh parsers, and
    /// return instance i's parser (state leaking between instances through process- or thread-wide storage in the
    /// subject shows up as a difference from the parser rebuilt from instance i's caches alone)
    pub fn replay(&self, i: usize, hist: &[u16]) -> NetflowParser {
        let mut ps: Vec<NetflowParser> = (0..self.ninst).map(|j| self.fresh(j)).collect();
        for a in hist {
            let a = &self.actions[*a as usize];
            ps[a.inst].parse_bytes(&a.bytes);
        }
        ps.swap_remove(i)
    }
    fn record(&self, hist: &[u16], issues: Vec<Issue>) {
        if issues.is_empty() {
            return;
        }
        let mut c = self.collected.lock().unwrap();
        for i in issues {
            {
                let m = c.more.entry(i.sig.clone()).or_default();
                if m.len() < 12 {
                    m.push(hist.to_vec());
                }
            }
            let e = c.issues.entry(i.sig).or_insert((0, hist.to_vec(), i.detail.clone()));
            e.0 += 1;
            if hist.len() < e.1.len() || (hist.len() == e.1.len() && hist < &e.1[..]) {
                e.1 = hist.to_vec();
                e.2 = i.detail;
            }
        }
    }
    pub fn is_allowed(&self, i: usize, v: u16) -> bool {
        self.allowed[i].contains(&v)
    }

    /// apply action `ai` in state `st`: judge the transition and return the successor
    pub fn step(&self, st: &St, ai: u16) -> (St, Vec<Issue>) {
        let a = &self.actions[ai as usize];
        let i = a.inst;
        let mut issues: Vec<Issue> = vec![];
        let mut hist = st.hist.clone();
        hist.push(ai);
        self.transitions.fetch_add(1, Ordering::Relaxed);

        // real parsers of every instance, rebuilt from the snapshot alone
        let mut ps: Vec<NetflowParser> = vec![];
        for j in 0..self.ninst {
            match self.rebuild(j, &st.enc[j]) {
                Some(p) => ps.push(p),
                None => {
                    issues.push(issue("cache-holds-a-definition-no-input-defined", format!("instance {} holds a template that none of the inputs defines", j)));
                    ps.push(self.replay(j, &st.hist));
                }
            }
        }
        let before: Vec<Enc> = ps.iter().map(enc_of).collect();
        let allowed_i = self.allowed[i].clone();
        let allowed = move |v: u16| allowed_i.contains(&v);

        // the action on the rebuilt parser
        let res = ps[i].parse_bytes(&a.bytes);
        let got: Vec<CPkt> = res.iter().map(c_pkt).collect();
        // ... and on a parser that replayed the whole history (soundness of merging states by snapshot)
        if self.replay_history {
            let mut q = self.replay(i, &st.hist);
            let res_q = q.parse_bytes(&a.bytes);
            self.parse_calls.fetch_add(2 + st.hist.len() as u64, Ordering::Relaxed);
            if format!("{:?}", res) != format!("{:?}", res_q) || enc_of(&q) != enc_of(&ps[i]) {
                issues.push(issue("result-depends-on-history-beyond-the-caches", format!("instance {}: a parser rebuilt from the cache snapshot and a parser that replayed the history disagree on action {}", i, a.name)));
            }
        } else {
            self.parse_calls.fetch_add(1, Ordering::Relaxed);
        }

        // (1) decoded data equals the reference decode under the latest definition, and
        // (2) cache delta law: the real caches are exactly what the reference cache predicts.
        // Both are judged against the pure specification first; only if that fails, against the specification
        // adjusted by the executable models of the recorded defects (refmodel::Q), whose names are then reported.
        let after: Vec<Enc> = ps.iter().map(enc_of).collect();
        let known_before = st.refc[i].clone();
        let mut pure_c = st.refc[i].clone();
        let exp_pure = match ref_buffer_allowed(&a.bytes, &mut pure_c, &allowed, &mut Q::pure()) {
            Ok(e) => e,
            Err(e) => panic!("E-HIST action {} is outside the reference model's domain: {:?}", a.name, e),
        };
        let mut refc = st.refc.clone();
        if got == exp_pure && after[i] == enc_of_ref(&pure_c) {
            refc[i] = pure_c;
        } else {
            let mut quirk_c = st.refc[i].clone();
            let mut q = Q::quirky();
            let exp_q = ref_buffer_allowed(&a.bytes, &mut quirk_c, &allowed, &mut q).ok();
            let (exp, post) = match (&exp_q, q.fired.is_empty()) {
                (Some(e), false) => (e.clone(), quirk_c),
                _ => (exp_pure, pure_c),
            };
            for f in &q.fired {
                issues.push(issue(*f, format!("instance {} action {}: recorded defect model applies", i, a.name)));
            }
            for mut is in diff_list(&exp, &got) {
                is.sig = format!("decode/{}", is.sig);
                is.detail = format!("instance {} action {}: {}", i, a.name, is.detail);
                issues.push(is);
            }
            let predicted = enc_of_ref(&post);
            if after[i] != predicted {
                let what = if a.inert { "cache-changed-by-inert-input" } else { "cache-differs-from-latest-definitions" };
                issues.push(issue(format!("cache/{}", what), format!("instance {} after action {}: real caches {:?}, reference predicts {:?}", i, a.name, short_enc(&after[i]), short_enc(&predicted))));
            }
            refc[i] = post;
        }
        // (3) no (map-independent) key ever disappears
        for (m, id, _) in &before[i] {
            let proto = *m / 2;
            if !after[i].iter().any(|(m2, id2, _)| *m2 / 2 == proto && id2 == id) {
                issues.push(issue("cache/template-evicted", format!("instance {}: id {} of protocol {} disappeared on action {}", i, id, if proto == 0 { "v9" } else { "ipfix" }, a.name)));
            }
        }
        // (4) isolation between instances and between protocols
        for j in 0..self.ninst {
            if j != i && after[j] != before[j] {
                issues.push(issue("isolation/other-instance-changed", format!("action {} on instance {} changed the caches of instance {}", a.name, i, j)));
            }
            if j != i && !before[j].is_empty() {
                self.guard("other-instance-non-empty-while-acting");
            }
        }
        if a.proto == 9 || a.proto == 10 {
            let other = |e: &Enc| -> Enc { e.iter().filter(|(m, _, _)| (*m / 2 == 0) != (a.proto == 9)).cloned().collect() };
            if other(&before[i]) != other(&after[i]) {
                issues.push(issue("isolation/other-protocol-changed", format!("a version-{} action ({}) changed the caches of the other protocol on instance {}", a.proto, a.name, i)));
            }
        }
        // (5) a buffer of several packets behaves like its packets delivered one per call
        // (only when every packet of the buffer has an allowed version: by C12 a disallowed packet legitimately hides
        // everything behind it in the same buffer, but not in later calls)
        let all_parts_allowed = a.parts.as_ref().map(|ps| ps.iter().all(|p| p.len() >= 2 && self.is_allowed(i, r16(p, 0)))).unwrap_or(false);
        if let (Some(parts), true) = (&a.parts, all_parts_allowed) {
            if let Some(mut p2) = self.rebuild(i, &st.enc[i]) {
                let mut all = vec![];
                for part in parts {
                    all.extend(p2.parse_bytes(part));
                }
                self.guard("composite-buffer-compared-with-split-delivery");
                if format!("{:?}", all) != format!("{:?}", res) || enc_of(&p2) != after[i] {
                    issues.push(issue("split/buffer-differs-from-one-packet-per-call", format!("instance {} action {}: {} elements in one call, {} when split", i, a.name, res.len(), all.len())));
                }
            }
        }
        // vacuity guards
        self.note_guards(st, a, i, &known_before, &refc[i], &res);

        (St { hist, enc: after, refc }, issues)
    }

    fn note_guards(&self, st: &St, a: &ActionSpec, i: usize, before: &RefCache, after: &RefCache, res: &[NetflowPacket]) {
        let has_data = res.iter().any(|e| match e {
            NetflowPacket::V9(x) => x.flowsets.iter().any(|s| matches!(s.body, v9::FlowSetBody::Data(_) | v9::FlowSetBody::OptionsData(_))),
            NetflowPacket::IPFix(x) => x.flowsets.iter().any(|s| matches!(s.body, ipfix::FlowSetBody::Data(_) | ipfix::FlowSetBody::OptionsData(_))),
            _ => false,
        });
        if has_data && before == after {
            // pure data action decoded with cached templates: which earlier actions defined them?
            let mut defs_seen = 0;
            let mut last_def_pos = None;
            let mut kinds = std::collections::BTreeSet::new();
            for (pos, h) in st.hist.iter().enumerate() {
                let b = &self.actions[*h as usize];
                if b.inst == i && !b.inert && b.proto == a.proto {
                    defs_seen += 1;
                    last_def_pos = Some(pos);
                    kinds.insert(b.name.contains("OT("));
                }
            }
            if defs_seen >= 2 {
                self.guard("redefinition-then-data");
            }
            if kinds.len() == 2 {
                self.guard("kind-change-then-data");
            }
            if let Some(p) = last_def_pos {
                if st.hist.len() - p >= 2 {
                    self.guard("data-under-template-learned-two-calls-ago");
                }
            }
        }
        if a.defines && a.proto != 0 && !self.is_allowed(i, a.proto) {
            self.guard("disallowed-template-offered");
        }
        for (id, t9) in &after.v9 {
            if let Some(ti) = after.ipfix.get(id) {
                if format!("{:?}", t9) != format!("{:?}", ti) {
                    self.guard("same-id-live-in-both-protocols-with-different-layouts");
                }
            }
        }
        if a.inert && a.proto != 0 && !has_data && (!before.v9.is_empty() || !before.ipfix.is_empty()) && a.name.starts_with("D(") {
            self.guard("data-for-absent-id-in-non-empty-cache");
        }
    }
}

fn short_enc(e: &Enc) -> Vec<String> {
    e.iter().map(|(m, id, h)| format!("{}:{}:{:04x}", ["v9.t", "v9.o", "ipfix.t", "ipfix.o"][*m as usize], id, h & 0xffff)).collect()
}

impl Model for HistModel {
    type State = St;
    type Action = u16;
    fn init_states(&self) -> Vec<St> {
        vec![St { hist: vec![], enc: vec![vec![]; self.ninst], refc: vec![RefCache::default(); self.ninst] }]
    }
    fn actions(&self, st: &St, out: &mut Vec<u16>) {
        if st.hist.len() < self.max_depth {
            out.extend(0..self.actions.len() as u16);
        }
    }
    fn next_state(&self, st: &St, a: u16) -> Option<St> {
        match std::panic::catch_unwind(std::panic::AssertUnwindSafe(|| self.step(st, a))) {
            Ok((next, issues)) => {
                self.record(&next.hist, issues);
                Some(next)
            }
            Err(p) => {
                let msg = p.downcast_ref::<String>().cloned().or_else(|| p.downcast_ref::<&str>().map(|s| s.to_string())).unwrap_or_else(|| "panic".into());
                let loc = crate::engine::LAST_PANIC_LOC.with(|l| l.borrow().clone());
                if loc.starts_with("src/") || loc.is_empty() {
                    eprintln!("MACHINERY: E-HIST transition panicked inside the harness at {}: {}", loc, msg);
                    std::process::exit(2);
                }
                let mut hist = st.hist.clone();
                hist.push(a);
                let short: String = msg.chars().map(|c| if c.is_ascii_digit() { '#' } else { c }).take(80).collect();
                self.record(&hist, vec![issue(format!("library-panicked/{}", short.replace(' ', "-")), format!("action {} panicked at {}: {}", self.actions[a as usize].name, loc, msg))]);
                None
            }
        }
    }
    fn properties(&self) -> Vec<Property<Self>> {
        // one property that never yields a discovery keeps the search running to its fixpoint; per-state probes
        // (C07) are evaluated here because this closure runs exactly once per unique state
        vec![Property::always("explore", |m: &HistModel, s: &St| {
            if let Some(p) = &m.probe {
                m.probes_run.fetch_add(1, Ordering::Relaxed);
                let is = p(m, s);
                m.record(&s.hist, is);
            }
            true
        })]
    }
}

pub struct HistResult {
    pub states: u64,
    pub generated: u64,
    pub transitions: u64,
    pub parse_calls: u64,
    pub max_depth: usize,
    pub probes: u64,
    pub wall_s: f64,
}

pub fn search(model: HistModel, threads: usize) -> (HistModel, HistResult) {
    let t0 = std::time::Instant::now();
    let checker = model.checker().threads(threads).spawn_bfs().join();
    let states = checker.unique_state_count() as u64;
    let generated = checker.state_count() as u64;
    let depth = checker.max_depth();
    let wall = t0.elapsed().as_secs_f64();
    // the model is owned by the checker; rebuild a handle to read the side channels
    let m: &HistModel = checker.model();
    let res = HistResult { states, generated, transitions: m.transitions.load(Ordering::Relaxed), parse_calls: m.parse_calls.load(Ordering::Relaxed), max_depth: depth, probes: m.probes_run.load(Ordering::Relaxed), wall_s: wall };
    let collected = std::mem::take(&mut *m.collected.lock().unwrap());
    let guards: Vec<(&'static str, u64)> = m.guards.iter().map(|(n, c)| (*n, c.load(Ordering::Relaxed))).collect();
    // hand back a model carrying the collected data (actions are needed for replay files)
    let mut out = HistModel::new(m.ninst, m.allowed.clone(), m.actions.clone(), m.max_depth);
    out.replay_history = m.replay_history;
    *out.collected.lock().unwrap() = collected;
    for ((_, c), (_, v)) in out.guards.iter().zip(guards.iter()) {
        c.store(*v, Ordering::Relaxed);
    }
    (out, res)
}
