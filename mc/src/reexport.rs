//! C09/C10 oracle: `to_be_bytes()` of every V9 / IPFIX packet returned by `parse_bytes` must equal the slice the
//! packet occupied in the input.  A difference is attributed to the finest structural unit (header, flowset kind,
//! field class/width) by re-exporting flowsets in isolation and fields one by one.
use crate::engine::{issue, Issue};
use crate::util::*;
use netflow_parser::variable_versions::data_number::{FieldDataType, FieldValue};
use netflow_parser::variable_versions::{ipfix, v9};
use netflow_parser::{NetflowPacket, NetflowParser};

fn utf8_ok(b: &[u8]) -> bool {
    std::str::from_utf8(b).is_ok()
}

/// cause classification of one field whose re-export differs from the bytes it was decoded from
fn field_sig(proto: &str, class: &FieldDataType, declared: u16, wire: &[u8], val: &FieldValue, got: &Result<Vec<u8>, std::io::Error>) -> String {
    let w = if declared == 65535 { "varlen".to_string() } else { format!("w{}", declared) };
    let lossy_by_nature = matches!(class, FieldDataType::MacAddr | FieldDataType::DurationSeconds | FieldDataType::DurationMillis | FieldDataType::DurationMicros | FieldDataType::DurationNanos);
    if got.is_err() {
        return if lossy_by_nature { format!("{}/export-error/{:?}", proto, class) } else { format!("{}/export-error/{:?}/{}", proto, class, w) };
    }
    if lossy_by_nature {
        // the decoded value does not retain unit / width / binary form, whatever the declared width
        return format!("{}/data/field/{:?}", proto, class);
    }
    match (class, val) {
        (FieldDataType::String, _) if !utf8_ok(wire) => format!("{}/data/field/String/invalid-utf8", proto),
        (FieldDataType::ProtocolType, _) if wire.len() == 1 && (145..=254).contains(&wire[0]) => format!("{}/data/field/ProtocolType/unnamed-number", proto),
        (FieldDataType::SignedDataNumber, _) => {
            // widened (1/2 bytes -> 4) or narrowed (8/16 -> 4) by the single signed representation
            format!("{}/data/field/SignedDataNumber/{}", proto, w)
        }
        _ => format!("{}/data/field/{:?}/{}", proto, class, w),
    }
}

// ------------------------------------------------------------------------------------------------ V9

pub fn v9_issues(tpls: &mut Local, x: &v9::V9, slice: &[u8]) -> Vec<Issue> {
    let mut out = vec![];
    let exported = x.to_be_bytes();
    if let Ok(b) = &exported {
        if b == slice {
            for fsx in &x.flowsets {
                if let v9::FlowSetBody::Template(t) = &fsx.body {
                    for t in &t.templates {
                        tpls.v9.insert(t.template_id, t.fields.clone());
                    }
                }
            }
            return out;
        }
    }
    if slice.len() < 20 {
        out.push(issue("v9/slice-shorter-than-header", "internal: occupied slice shorter than a header"));
        return out;
    }
    let mut hdr_only = x.clone();
    hdr_only.flowsets = vec![];
    if hdr_only.to_be_bytes().map(|b| b != slice[..20]).unwrap_or(true) {
        out.push(issue("v9/header", format!("header re-exports as {:?}, input {}", hdr_only.to_be_bytes().map(|b| hex(&b)).ok(), hex(&slice[..20]))));
    }
    let mut o = 20usize;
    for (si, fsx) in x.flowsets.iter().enumerate() {
        if let v9::FlowSetBody::Template(t) = &fsx.body {
            for t in &t.templates {
                tpls.v9.insert(t.template_id, t.fields.clone());
            }
        }
        let len = (fsx.header.length as usize).max(4);
        if o + len > slice.len() {
            out.push(issue("v9/flowset-beyond-slice", format!("flowset {} ends past the occupied slice", si)));
            break;
        }
        let exp = &slice[o..o + len];
        let mut single = hdr_only.clone();
        single.flowsets = vec![fsx.clone()];
        let got = single.to_be_bytes().map(|b| b[20..].to_vec());
        let same = got.as_ref().map(|g| g == exp).unwrap_or(false);
        if !same {
            match &fsx.body {
                v9::FlowSetBody::Template(_) => out.push(issue("v9/template-flowset", format!("flowset {}: expected {} got {:?}", si, short(exp), got.as_ref().map(|g| short(g)).ok()))),
                v9::FlowSetBody::OptionsTemplate(_) => out.push(issue("v9/options-template-flowset", format!("flowset {}: expected {} got {:?}", si, short(exp), got.as_ref().map(|g| short(g)).ok()))),
                v9::FlowSetBody::OptionsData(_) => out.push(issue("v9/options-data-flowset", format!("flowset {}: expected {} got {:?}", si, short(exp), got.as_ref().map(|g| short(g)).ok()))),
                v9::FlowSetBody::Data(d) => {
                    let before = out.len();
                    let mut pos = 4usize;
                    if let Some(tpl) = tpls.v9.get(&fsx.header.flowset_id) {
                        'rec: for (ri, rec) in d.fields.iter().enumerate() {
                            for (k, (_ft, val)) in rec.iter() {
                                let tf = match tpl.get(*k) {
                                    Some(t) => t,
                                    None => break 'rec,
                                };
                                let w = consumed(&tf.field_type.into(), tf.field_length as usize);
                                if pos + w > exp.len() {
                                    break 'rec;
                                }
                                let wire = &exp[pos..pos + w];
                                let g = val.to_be_bytes();
                                if g.as_ref().map(|g| g != wire).unwrap_or(true) {
                                    let class: FieldDataType = tf.field_type.into();
                                    out.push(issue(field_sig("v9", &class, tf.field_length, wire, val, &g), format!("flowset {} record {} field {} ({:?}): wire {} re-exports as {:?}", si, ri, k, tf.field_type, hex(wire), g.as_ref().map(|g| hex(g)).ok())));
                                }
                                pos += w;
                            }
                        }
                        let exp_pad = &exp[pos.min(exp.len())..];
                        if !exp_pad.is_empty() && out.len() == before {
                            let exported_len = got.as_ref().map(|g| g.len()).unwrap_or(0);
                            if exported_len + exp_pad.len() == exp.len() {
                                out.push(issue("v9/data/padding-omitted", format!("flowset {}: {} trailing byte(s) {} not re-exported", si, exp_pad.len(), hex(exp_pad))));
                            }
                        }
                    }
                    if out.len() == before {
                        out.push(issue("v9/data-flowset/unattributed", format!("flowset {}: expected {} got {:?}", si, short(exp), got.as_ref().map(|g| short(g)).ok())));
                    }
                }
            }
        }
        o += len;
    }
    if o != slice.len() && out.is_empty() {
        out.push(issue("v9/occupied-length", format!("flowsets cover {} bytes, the packet occupied {}", o, slice.len())));
    }
    if out.is_empty() {
        out.push(issue("v9/unattributed", format!("re-export {:?} differs from input {}", exported.as_ref().map(|b| short(b)).ok(), short(slice))));
    }
    out
}

// ------------------------------------------------------------------------------------------------ IPFIX

/// bytes a field of this class actually consumes (address, MAC, protocol and float classes ignore the declared length)
fn consumed(class: &FieldDataType, declared: usize) -> usize {
    match class {
        FieldDataType::Ip4Addr => 4,
        FieldDataType::Ip6Addr => 16,
        FieldDataType::MacAddr => 6,
        FieldDataType::ProtocolType => 1,
        FieldDataType::Float64 => 8,
        _ => declared,
    }
}

/// templates in force while walking the decoded flowsets of one call (latest decoded definition wins)
#[derive(Default)]
pub struct Local {
    pub v9: std::collections::HashMap<u16, Vec<v9::TemplateField>>,
    pub ipfix: std::collections::HashMap<u16, Vec<ipfix::TemplateField>>,
    pub ipfix_o: std::collections::HashMap<u16, Vec<ipfix::TemplateField>>,
}
impl Local {
    pub fn from_parser(p: &NetflowParser) -> Local {
        let mut l = Local::default();
        for (k, t) in &p.v9_parser.templates {
            l.v9.insert(*k, t.fields.clone());
        }
        for (k, t) in &p.ipfix_parser.options_templates {
            l.ipfix_o.insert(*k, t.fields.clone());
        }
        for (k, t) in &p.ipfix_parser.templates {
            l.ipfix.insert(*k, t.fields.clone());
        }
        l
    }
}

fn ipfix_fields_walk(si: usize, fields: &[ipfix::TemplateField], recs: &[std::collections::BTreeMap<usize, (netflow_parser::variable_versions::ipfix_lookup::IPFixField, FieldValue)>], exp: &[u8], out: &mut Vec<Issue>) -> usize {
    let mut pos = 4usize;
    for (fi, m) in recs.iter().enumerate() {
        for (k, (_ft, val)) in m.iter() {
            let tf = match fields.get(*k) {
                Some(t) => t,
                None => return pos,
            };
            let class0: FieldDataType = if tf.enterprise_number.is_some() { FieldDataType::Vec } else { tf.field_type.into() };
            let mut w = consumed(&class0, tf.field_length as usize);
            let mut prefix = 0usize;
            if tf.field_length == 65535 {
                if pos >= exp.len() {
                    return pos;
                }
                w = exp[pos] as usize;
                prefix = 1;
                if w == 255 {
                    if pos + 3 > exp.len() {
                        return pos;
                    }
                    w = r16(exp, pos + 1) as usize;
                    prefix = 3;
                }
                w = consumed(&class0, w);
            }
            if pos + prefix + w > exp.len() {
                return pos;
            }
            let wire = &exp[pos + prefix..pos + prefix + w];
            let g = val.to_be_bytes();
            let class: FieldDataType = if tf.enterprise_number.is_some() { FieldDataType::Vec } else { tf.field_type.into() };
            if g.as_ref().map(|g| g != wire).unwrap_or(true) {
                out.push(issue(field_sig("ipfix", &class, tf.field_length, wire, val, &g), format!("set {} flat field {} (index {}, {:?}): wire {} re-exports as {:?}", si, fi, k, tf.field_type, short(wire), g.as_ref().map(|g| short(g)).ok())));
            }
            if prefix > 0 {
                out.push(issue("ipfix/data/variable-length-prefix-omitted", format!("set {} flat field {}: the {}-byte length prefix is not re-exported", si, fi, prefix)));
            }
            pos += prefix + w;
        }
    }
    pos
}

pub fn ipfix_issues(tpls: &mut Local, x: &ipfix::IPFix, slice: &[u8]) -> Vec<Issue> {
    let mut out = vec![];
    let exported = x.to_be_bytes();
    if let Ok(b) = &exported {
        if b == slice {
            for fsx in &x.flowsets {
                match &fsx.body {
                    ipfix::FlowSetBody::Template(t) => {
                        tpls.ipfix.insert(t.template_id, t.fields.clone());
                    }
                    ipfix::FlowSetBody::OptionsTemplate(t) => {
                        tpls.ipfix_o.insert(t.template_id, t.fields.clone());
                    }
                    _ => {}
                }
            }
            return out;
        }
    }
    if slice.len() < 16 {
        out.push(issue("ipfix/slice-shorter-than-header", "internal"));
        return out;
    }
    let mut hdr_only = x.clone();
    hdr_only.flowsets = vec![];
    if hdr_only.to_be_bytes().map(|b| b != slice[..16]).unwrap_or(true) {
        out.push(issue("ipfix/header", format!("header re-exports as {:?}, input {}", hdr_only.to_be_bytes().map(|b| hex(&b)).ok(), hex(&slice[..16]))));
    }
    let mut o = 16usize;
    for (si, fsx) in x.flowsets.iter().enumerate() {
        match &fsx.body {
            ipfix::FlowSetBody::Template(t) => {
                tpls.ipfix.insert(t.template_id, t.fields.clone());
            }
            ipfix::FlowSetBody::OptionsTemplate(t) => {
                tpls.ipfix_o.insert(t.template_id, t.fields.clone());
            }
            _ => {}
        }
        let len = (fsx.header.length as usize).max(4);
        if o + len > slice.len() {
            out.push(issue("ipfix/set-beyond-slice", format!("set {} ends past the occupied slice", si)));
            break;
        }
        let exp = &slice[o..o + len];
        let mut single = hdr_only.clone();
        single.flowsets = vec![fsx.clone()];
        let got = single.to_be_bytes().map(|b| b[16..].to_vec());
        let same = got.as_ref().map(|g| g == exp).unwrap_or(false);
        if !same {
            let before = out.len();
            match &fsx.body {
                ipfix::FlowSetBody::Template(t) => {
                    if t.fields.iter().any(|f| f.enterprise_number.is_some()) {
                        out.push(issue("ipfix/template-set/enterprise-bit-omitted", format!("set {}: expected {} got {:?}", si, short(exp), got.as_ref().map(|g| short(g)).ok())));
                    } else {
                        out.push(issue("ipfix/template-set", format!("set {}: expected {} got {:?}", si, short(exp), got.as_ref().map(|g| short(g)).ok())));
                    }
                }
                ipfix::FlowSetBody::OptionsTemplate(t) => {
                    if t.fields.iter().any(|f| f.enterprise_number.is_some()) {
                        out.push(issue("ipfix/options-template-set/enterprise-bit-omitted", format!("set {}: expected {} got {:?}", si, short(exp), got.as_ref().map(|g| short(g)).ok())));
                    } else {
                        out.push(issue("ipfix/options-template-set", format!("set {}: expected {} got {:?}", si, short(exp), got.as_ref().map(|g| short(g)).ok())));
                    }
                }
                ipfix::FlowSetBody::Data(d) => {
                    if let Some(tpl) = tpls.ipfix.get(&fsx.header.header_id) {
                        ipfix_fields_walk(si, tpl, &d.fields, exp, &mut out);
                    }
                }
                ipfix::FlowSetBody::OptionsData(d) => {
                    if let Some(tpl) = tpls.ipfix_o.get(&fsx.header.header_id) {
                        ipfix_fields_walk(si, tpl, &d.fields, exp, &mut out);
                    }
                }
            }
            if out.len() == before {
                out.push(issue("ipfix/set/unattributed", format!("set {}: expected {} got {:?}", si, short(exp), got.as_ref().map(|g| short(g)).ok())));
            }
        }
        o += len;
    }
    if o < slice.len() && (x.header.length as usize).max(16) == slice.len() {
        // header.length covers bytes for which no set is reported (and therefore none re-exported)
        out.push(issue("ipfix/sets-not-reported-not-reexported", format!("decoded sets cover {} of the {} bytes of the message", o, slice.len())));
    }
    if out.is_empty() {
        out.push(issue("ipfix/unattributed", format!("re-export {:?} differs from input {}", exported.as_ref().map(|b| short(b)).ok(), short(slice))));
    }
    out
}

// ------------------------------------------------------------------------------------------------ drivers' judge

/// run the calls on one fresh parser; after each call judge every V9 (version 9) or IPFIX (version 10) element
pub fn judge_calls(calls: &[Vec<u8>], version: u16) -> crate::engine::Eval {
    judge_calls_ex(calls, version, false)
}

/// `conformant`: the calls come from the conformant stream spaces (the reference model is authoritative about which
/// sets are decodable); not so for the deviation families
pub fn judge_calls_ex(calls: &[Vec<u8>], version: u16, conformant: bool) -> crate::engine::Eval {
    let mut p = NetflowParser::default();
    let mut issues: Vec<Issue> = vec![];
    let mut judged = 0u64;
    let mut keyacc: Vec<u64> = vec![];
    let mut tags = vec![];
    // reference cache (with the executable models of the recorded defects): tells "sets the parser could not decode"
    // from "sets it should have decoded" when a message is re-exported without some of its sets
    let mut rc = crate::refmodel::RefCache::default();
    for call in calls {
        let mut local = Local::from_parser(&p);
        let res = p.parse_bytes(call);
        let mut o = 0usize;
        for e in &res {
            let len = match e {
                NetflowPacket::V5(x) => 24 + 48 * x.header.count as usize,
                NetflowPacket::V7(x) => 24 + 52 * x.header.count as usize,
                NetflowPacket::V9(x) => 20 + x.flowsets.iter().map(|s| (s.header.length as usize).max(4)).sum::<usize>(),
                NetflowPacket::IPFix(x) => (x.header.length as usize).max(16),
                NetflowPacket::Error(_) => break,
            };
            if o + len > call.len() {
                break; // C02's subject
            }
            let slice = &call[o..o + len];
            match e {
                NetflowPacket::V9(x) if version == 9 => {
                    judged += 1;
                    let is = v9_issues(&mut local, x, slice);
                    keyacc.push(h64(&(slice, is.len())));
                    issues.extend(is);
                }
                NetflowPacket::IPFix(x) if version == 10 => {
                    judged += 1;
                    let mut is = ipfix_issues(&mut local, x, slice);
                    let decodable = match crate::refmodel::ref_ipfix_sets(slice, &mut rc, &mut crate::refmodel::Q::quirky()) {
                        Ok((_, sets, _)) => Some(sets.iter().filter(|s| matches!(s, crate::refmodel::RefSet::Decoded(_))).count()),
                        Err(_) => None,
                    };
                    if let (Some(n), true) = (decodable, conformant) {
                        if x.flowsets.len() < n {
                            for i in is.iter_mut() {
                                if i.sig == "ipfix/sets-not-reported-not-reexported" {
                                    i.sig = "ipfix/decodable-sets-not-reported-not-reexported".into();
                                    i.detail = format!("{}; the reference decodes {} sets of this message, {} are reported; message {}", i.detail, n, x.flowsets.len(), hex(slice));
                                }
                            }
                        }
                    }
                    keyacc.push(h64(&(slice, is.len())));
                    issues.extend(is);
                }
                _ => {}
            }
            o += len;
        }
    }
    if judged > 0 {
        tags.push("packet-judged");
    }
    issues.sort_by(|a, b| a.sig.cmp(&b.sig));
    issues.dedup_by(|a, b| a.sig == b.sig);
    crate::engine::Eval { key: if judged > 0 { h64(&keyacc) | 1 } else { 0 }, transitions: calls.len() as u64, issues, tags }
}
