//! C14 — a truncated packet is reported as an error, never as a shorter valid one (E-ENUM: every cut point).
use crate::alphabet::*;
use crate::cform::*;
use crate::engine::*;
use crate::util::*;
use crate::wire::*;
use netflow_parser::NetflowPacket;
use serde_json::json;

#[derive(Clone)]
struct Seed {
    name: String,
    /// calls that make the packet decodable (templates), delivered before
    needs: Vec<u8>,
    packet: Vec<u8>,
    /// V9: offsets at which a cut yields a shorter *valid* packet (flowset boundaries) — excluded by the property
    boundaries: Vec<usize>,
    /// Some((head, tail)): only the cut points in the first `head` and the last `tail` bytes are explored (packets
    /// longer than a datagram, whose every cut costs a 64 KiB parse)
    only_cuts: Option<(usize, usize)>,
}

fn v9_boundaries(p: &[u8]) -> Vec<usize> {
    let mut v = vec![20];
    let mut o = 20;
    while o + 4 <= p.len() {
        let l = (r16(p, o + 2) as usize).max(4);
        o += l;
        v.push(o);
    }
    v
}

fn seeds(thorough: bool) -> Vec<Seed> {
    let mut v = vec![];
    for ver in [5u16, 7] {
        let mut counts = vec![0usize, 1, 2, 3, 30];
        if thorough {
            counts.push((65535 - 24) / rec_size(ver));
        }
        for n in counts {
            v.push(Seed { name: format!("v{}x{}", ver, n), needs: vec![], packet: fixed_distinct(ver, n, 3), boundaries: vec![], only_cuts: None });
        }
    }
    // V5 / V7 packets LONGER than a datagram (parse_bytes takes any slice): the counts at which count x record size
    // passes 65 535, cut in the header and in the last two records
    for (ver, n) in [(5u16, 1365usize), (5, 1366), (7, 1260), (7, 1261), (7, 1262)] {
        v.push(Seed { name: format!("v{}x{}-beyond-a-datagram", ver, n), needs: vec![], packet: fixed_distinct(ver, n, 5), boundaries: vec![], only_cuts: Some((30, 120)) });
    }
    // template ids 400.. : disjoint from the ids of the context packets, so that every seed is valid in every context
    // V9: template packets, data packets (templates delivered before), mixed packets
    let reps = v9_reps();
    for (k, f) in reps.iter().enumerate() {
        if f.len == 0 {
            continue;
        }
        let partners: Vec<usize> = if thorough { (0..reps.len()).collect() } else { vec![(k + 3) % reps.len(), (k + 7) % reps.len()] };
        for j in partners {
            let fields = vec![*f, reps[j]];
            let t = V9Set::Tpl(vec![V9Tpl { id: 400, fields: fields.clone() }], 0);
            let d = V9Set::Data(400, crate::props::c04::body_for(&fields, 2, (k + j) % 4, None));
            let tp = v9_packet(&V9Pkt::new(vec![t.clone()]));
            let dp = v9_packet(&V9Pkt::new(vec![d.clone()]));
            let td = v9_packet(&V9Pkt::new(vec![t, d]));
            v.push(Seed { name: format!("v9-T-{}-{}", k, j), needs: vec![], boundaries: v9_boundaries(&tp), packet: tp.clone(), only_cuts: None });
            v.push(Seed { name: format!("v9-D-{}-{}", k, j), needs: tp, boundaries: v9_boundaries(&dp), packet: dp, only_cuts: None });
            v.push(Seed { name: format!("v9-TD-{}-{}", k, j), needs: vec![], boundaries: v9_boundaries(&td), packet: td, only_cuts: None });
        }
    }
    {
        let o = V9OptTpl { id: 402, scope: vec![fs(1, 4), fs(2, 2)], opts: vec![fs(34, 2), fs(36, 2)] };
        let p = v9_packet(&V9Pkt::new(vec![V9Set::OptTpl(vec![o.clone(), V9OptTpl { id: 403, ..o.clone() }], 0), V9Set::Data(402, (0..10).map(|j| fill(4, j)).collect()), V9Set::Data(403, (0..12).map(|j| fill(5, j)).collect())]));
        v.push(Seed { name: "v9-options".into(), needs: vec![], boundaries: v9_boundaries(&p), packet: p, only_cuts: None });
        // two template records in one flowset, then data for each (one padded by 3)
        let fa = vec![fs(8, 4), fs(7, 2), fs(4, 1)];
        let fb = vec![fs(27, 16), fs(96, 5)];
        let p = v9_packet(&V9Pkt::new(vec![
            V9Set::Tpl(vec![V9Tpl { id: 400, fields: fa.clone() }, V9Tpl { id: 401, fields: fb.clone() }], 0),
            V9Set::Data(400, crate::props::c04::body_for(&fa, 2, 2, None)),
            V9Set::Data(401, crate::props::c04::body_for(&fb, 1, 3, None)),
            V9Set::Data(400, crate::props::c04::body_for(&fa, 4, 0, None)),
        ]));
        v.push(Seed { name: "v9-two-templates-three-data-flowsets".into(), needs: vec![], boundaries: v9_boundaries(&p), packet: p, only_cuts: None });
    }
    // IPFIX
    let reps = ipfix_reps();
    for (k, f) in reps.iter().enumerate() {
        if f.len == 0 {
            continue;
        }
        let partners: Vec<usize> = if thorough { (0..reps.len()).collect() } else { vec![(k + 5) % reps.len(), (k + 11) % reps.len()] };
        for j in partners {
            let fields = vec![*f, reps[j]];
            if crate::refmodel::ipfix_min_record(&fields) == 0 {
                continue;
            }
            let t = IpfixSet::Tpl(vec![IpfixTpl { id: 400, fields: fields.clone() }], 0);
            let d = IpfixSet::Data(400, crate::props::c05::body_for(&fields, 2, (k + j) % 4, None));
            let tp = ipfix_message(&IpfixMsg::new(vec![t.clone()]));
            let dp = ipfix_message(&IpfixMsg::new(vec![d.clone()]));
            let td = ipfix_message(&IpfixMsg::new(vec![t, d]));
            v.push(Seed { name: format!("ipfix-T-{}-{}", k, j), needs: vec![], boundaries: vec![], packet: tp.clone(), only_cuts: None });
            v.push(Seed { name: format!("ipfix-D-{}-{}", k, j), needs: tp, boundaries: vec![], packet: dp, only_cuts: None });
            v.push(Seed { name: format!("ipfix-TD-{}-{}", k, j), needs: vec![], boundaries: vec![], packet: td, only_cuts: None });
        }
    }
    {
        let o = IpfixOptTpl { id: 402, scope_count: 1, fields: vec![fs(149, 4), fs(41, 2), fs(82, 65535)] };
        let body = crate::props::c05::body_for(&o.fields, 2, 0, None);
        let p = ipfix_message(&IpfixMsg::new(vec![IpfixSet::OptTpl(vec![o.clone()], 0), IpfixSet::Data(402, body.clone())]));
        v.push(Seed { name: "ipfix-options".into(), needs: vec![], boundaries: vec![], packet: p, only_cuts: None });
        v.push(Seed { name: "ipfix-header-only".into(), needs: vec![], boundaries: vec![], packet: ipfix_message(&IpfixMsg::new(vec![])), only_cuts: None });
        // two template records in one set, an options template, data for each, a long-form variable-length value
        let fa = vec![fs(8, 4), fs(7, 2), fs(4, 1)];
        let fb = vec![fs(27, 16), fs(82, 65535)];
        let mut body_b: Vec<u8> = (0..16).map(|j| fill(6, j)).collect();
        body_b.extend(crate::wire::ipfix_field_bytes(&fs(82, 65535), &(0..300).map(|j| b'a' + (j % 26) as u8).collect::<Vec<u8>>(), true));
        let p = ipfix_message(&IpfixMsg::new(vec![
            IpfixSet::Tpl(vec![IpfixTpl { id: 400, fields: fa.clone() }, IpfixTpl { id: 401, fields: fb.clone() }], 0),
            IpfixSet::OptTpl(vec![o], 0),
            IpfixSet::Data(400, crate::props::c05::body_for(&fa, 3, 2, None)),
            IpfixSet::Data(401, body_b),
            IpfixSet::Data(402, body),
        ]));
        v.push(Seed { name: "ipfix-two-templates-options-three-data-sets-long-form".into(), needs: vec![], boundaries: vec![], packet: p, only_cuts: None });
    }
    if thorough {
        // maximal variable packets from the ladder
        let f = vec![fs(1, 4)];
        let n = (65535 - 24) / 4;
        v.push(Seed {
            name: "ipfix-max-records".into(),
            needs: ipfix_message(&IpfixMsg::new(vec![IpfixSet::Tpl(vec![IpfixTpl { id: 400, fields: f.clone() }], 0)])),
            boundaries: vec![],
            packet: ipfix_message(&IpfixMsg::new(vec![IpfixSet::Data(400, (0..n * 4).map(|j| fill(j / 251, j)).collect())])),
            only_cuts: None,
        });
    }
    v
}

/// contexts: 0 = alone; 1 = after a V5 packet; 2 = after the template packet it needs in the same buffer (seeds that need
/// none: after a V7 packet); 3.. = after every sequence of one or two self-delimiting packets of the packet menu
/// (whose template ids are disjoint from the seeds')
struct Ctx {
    name: String,
    pkts: Vec<Vec<u8>>,
    needs_in_buffer: bool,
}
fn contexts() -> Vec<Ctx> {
    use crate::menu;
    let mut v = vec![
        Ctx { name: "alone".into(), pkts: vec![], needs_in_buffer: false },
        Ctx { name: "after a V5 packet".into(), pkts: vec![fixed_distinct(5, 1, 77)], needs_in_buffer: false },
        Ctx { name: "after the template packet it needs, same buffer (no template needed: after a V7 packet)".into(), pkts: vec![], needs_in_buffer: true },
    ];
    for a in 0..menu::SELF_DELIMITING {
        v.push(Ctx { name: format!("after menu packet {}", menu::NAMES[a]), pkts: vec![menu::packet(a, 1)], needs_in_buffer: false });
    }
    for a in 0..menu::SELF_DELIMITING {
        for b in 0..menu::SELF_DELIMITING {
            v.push(Ctx { name: format!("after menu packets {} and {}", menu::NAMES[a], menu::NAMES[b]), pkts: vec![menu::packet(a, 1), menu::packet(b, 14)], needs_in_buffer: false });
        }
    }
    v
}

#[derive(Clone)]
struct Case {
    seed: usize,
    cut: usize,
    ctx: usize,
}

fn judge(sd: &Seed, cx: &Ctx, c: &Case) -> Eval {
    let mut issues = vec![];
    let version = r16(&sd.packet, 0);
    let truncated = &sd.packet[..c.cut];
    let mut p = new_parser(None);
    let mut pkts: Vec<Vec<u8>> = cx.pkts.clone();
    if cx.needs_in_buffer {
        pkts = vec![if sd.needs.is_empty() { fixed_distinct(7, 1, 78) } else { sd.needs.clone() }];
    } else if !sd.needs.is_empty() {
        p.parse_bytes(&sd.needs);
    }
    let prefix: Vec<u8> = pkts.concat();
    let nprefix = pkts.len();
    // the un-truncated run from the same state (for "preceding elements unchanged" and the validity of the seed)
    let mut pfull = rebuild(&caches(&p), None);
    let mut full_in = prefix.clone();
    full_in.extend_from_slice(&sd.packet);
    let full = pfull.parse_bytes(&full_in);
    if full.len() != nprefix + 1 || full.iter().any(|e| e.is_error()) {
        if c.ctx <= 2 {
            panic!("C14 seed {} is not a valid packet in context {} ({} elements)", sd.name, c.ctx, full.len());
        }
        // a menu sequence that is itself not a sequence of valid packets from this state (V9 data before its template)
        return Eval { key: 0, transitions: 1, issues, tags: vec!["context-not-a-sequence-of-valid-packets(skipped)"] };
    }
    let mut input = prefix.clone();
    input.extend_from_slice(truncated);
    let res = p.parse_bytes(&input);
    let after = snap(&p);
    // preceding elements unchanged
    let npre = nprefix.min(res.len());
    for k in 0..npre {
        if format!("{:?}", res[k]) != format!("{:?}", full[k]) {
            issues.push(issue("preceding-packet-changed", format!("element {} differs from the un-truncated run", k)));
        }
    }
    match res.last() {
        Some(NetflowPacket::Error(e)) if res.len() == nprefix + 1 => {
            if e.remaining != truncated {
                issues.push(issue(format!("v{}/error-remaining", version), format!("error.remaining has {} bytes, the truncated packet has {}", e.remaining.len(), truncated.len())));
            }
        }
        _ => {
            let kinds: Vec<String> = res.iter().map(|e| format!("{:?}", c_pkt(e).version())).collect();
            issues.push(issue(format!("v{}/truncated-packet-not-an-error", version), format!("cut at {} of {}: result kinds {:?} (expected {} packet(s) then one error)", c.cut, sd.packet.len(), kinds, nprefix)));
        }
    }
    if version != 9 {
        // templates carried by the context prefix are legitimately learned; compare with a run of the prefix alone
        let mut pref_only = new_parser(None);
        if !cx.needs_in_buffer && !sd.needs.is_empty() {
            pref_only.parse_bytes(&sd.needs);
        }
        pref_only.parse_bytes(&prefix);
        if snap(&pref_only) != after {
            issues.push(issue(format!("v{}/cache-changed-by-truncated-packet", version), "template caches differ from those after the prefix alone".to_string()));
        }
    }
    let key = h64(&(sd.name.as_str(), c.cut, c.ctx));
    Eval { key, transitions: 2, issues, tags: vec![if nprefix >= 2 { "after-two-packets" } else if nprefix == 1 { "after-one-packet" } else { "alone" }] }
}

pub fn spaces(tier: &str) -> Vec<Box<dyn Space>> {
    let thorough = tier == "thorough";
    let sds = seeds(thorough);
    let ctxs = contexts();
    let nctx = ctxs.len() as u64;
    // (seed, cut) pairs; packets above 4000 bytes are cut alone only
    let mut small: Vec<(u32, u32)> = vec![];
    let mut big: Vec<(u32, u32)> = vec![];
    for (si, s) in sds.iter().enumerate() {
        for cut in 1..s.packet.len() {
            if s.boundaries.contains(&cut) {
                continue;
            }
            if let Some((head, tail)) = s.only_cuts {
                if cut > head && cut + tail < s.packet.len() {
                    continue;
                }
            }
            if s.packet.len() > 4000 {
                big.push((si as u32, cut as u32));
            } else {
                small.push((si as u32, cut as u32));
            }
        }
    }
    let nsmall = small.len() as u64 * nctx;
    let total = nsmall + big.len() as u64;
    let decode = move |i: u64| -> Case {
        if i < nsmall {
            let (s, c) = small[(i / nctx) as usize];
            Case { seed: s as usize, cut: c as usize, ctx: (i % nctx) as usize }
        } else {
            let (s, c) = big[(i - nsmall) as usize];
            Case { seed: s as usize, cut: c as usize, ctx: 0 }
        }
    };
    let sds = std::sync::Arc::new(sds);
    let ctxs = std::sync::Arc::new(ctxs);
    let (s2, c2, d2) = (sds.clone(), ctxs.clone(), decode.clone());
    vec![space(
        &format!("every-cut-point-of-{}-valid-packets-in-{}-contexts", sds.len(), nctx),
        total,
        move |i| {
            let c = decode(i);
            judge(&sds[c.seed], &ctxs[c.ctx], &c)
        },
        move |i| {
            let c = d2(i);
            let sd = &s2[c.seed];
            json!({"seed": sd.name, "cut": c.cut, "packet_len": sd.packet.len(), "context": c2[c.ctx].name, "context_packets": c2[c.ctx].pkts.iter().map(|p| hex(p)).collect::<Vec<_>>(), "templates_needed": hex(&sd.needs), "truncated_packet": short(&sd.packet[..c.cut])})
        },
    )]
}

pub fn run(tier: &str) -> i32 {
    let rep = Report {
        prop: "C14".into(),
        tier: tier.into(),
        level: "fault_enumeration",
        rule: "every cut point strictly inside every seed packet (V5/V7 with 0,1,2,3,30(,max) records and, cut in the header and the last two records only, with the counts at which count x record size passes 65 535; V9 and IPFIX template, data, template+data packets over pairs of class representatives (quick: two partners per representative, thorough: all pairs), options packets, multi-template multi-data packets with padding and a long-form variable-length value), excluding V9 flowset boundaries, in every context: alone / after a V5 packet / after the template packet it needs in the same buffer / after every sequence of one or two self-delimiting packets of the 17-packet menu; oracle: exactly the context's packets, unchanged, then one error whose remaining bytes are the truncated packet, caches as after the context alone; a case is distinct by (seed, cut, context)".into(),
        bounds: json!({"contexts": 3 + 17 + 289, "max_packet": if tier == "thorough" {"datagram limit"} else {"30 records"}}),
        assumptions: vec!["seed validity is checked at run time (the un-truncated packet must decode without error in the same context)".into()],
        trusted_base: vec!["c14::judge".into()],
        required_tags: vec!["alone", "after-one-packet", "after-two-packets"],
        extra: Default::default(),
    };
    run_report(rep, spaces(tier))
}
