#!/usr/bin/env python3
"""Extract every byte-array / hex literal of /repo/src/tests.rs into /verif/corpus/NN_name.hex (one hex line each)."""
import re, sys, os
src = open('/repo/src/tests.rs').read()
out = '/verif/corpus'
# split by test fn
parts = re.split(r'\n    fn (it_\w+)\(\)', src)
n = 0
seen = set()
for i in range(1, len(parts), 2):
    name, body = parts[i], parts[i+1]
    k = 0
    for m in re.finditer(r'(?:=|\()\s*(?:vec!)?\[\s*((?:\d+\s*,\s*)*\d+\s*,?)\s*\]', body):
        bs = bytes(int(x) for x in re.findall(r'\d+', m.group(1)))
        if len(bs) < 4 or bs in seen: continue
        seen.add(bs)
        open(f'{out}/{n:02d}_{name}_{k}.hex', 'w').write(bs.hex() + '\n'); n += 1; k += 1
    for m in re.finditer(r'r#"([0-9a-fA-F]+)"#', body):
        bs = bytes.fromhex(m.group(1))
        if bs in seen: continue
        seen.add(bs)
        open(f'{out}/{n:02d}_{name}_{k}.hex', 'w').write(bs.hex() + '\n'); n += 1; k += 1
print(n, 'buffers')
