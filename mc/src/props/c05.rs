//! C05 — IPFIX sets decode exactly as RFC 7011 and the governing template say (E-ENUM + short histories).
use super::stream::*;
use crate::alphabet::*;
use crate::engine::*;
use crate::refmodel::*;
use crate::util::*;
use crate::wire::*;
use serde_json::json;

const VARLENS: [usize; 6] = [0, 1, 2, 254, 255, 300];

/// bytes of field k of record r (with the variable-length prefix when the spec is variable-length)
pub fn field_bytes(f: &FieldSpec, r: usize, k: usize) -> Vec<u8> {
    if f.len == 65535 {
        let l = [3usize, 5, 1, 4][(r + k) % 4];
        ipfix_field_bytes(f, &rec_value(r, k, l), (r + k) % 3 == 2)
    } else {
        rec_value(r, k, f.len as usize)
    }
}

pub fn body_for(fields: &[FieldSpec], nrec: usize, pad: usize, dev: Option<(usize, usize, &[u8])>) -> Vec<u8> {
    let mut b = vec![];
    for r in 0..nrec {
        for (k, f) in fields.iter().enumerate() {
            match dev {
                Some((dr, dk, val)) if dr == r && dk == k => b.extend_from_slice(val),
                _ => b.extend(field_bytes(f, r, k)),
            }
        }
    }
    let pad = pad.min(ipfix_min_record(fields).saturating_sub(1));
    b.extend(std::iter::repeat(0).take(pad));
    b
}

/// 0 = same message, 1 = template in a previous call, 2 = two messages in one buffer
pub fn deliver(tpl: IpfixSet, data: IpfixSet, mode: u64) -> Vec<Vec<u8>> {
    match mode {
        0 => vec![ipfix_message(&IpfixMsg::new(vec![tpl, data]))],
        1 => vec![ipfix_message(&IpfixMsg::new(vec![tpl])), ipfix_message(&IpfixMsg::new(vec![data]))],
        _ => {
            let mut b = ipfix_message(&IpfixMsg::new(vec![tpl]));
            b.extend(ipfix_message(&IpfixMsg::new(vec![data])));
            vec![b]
        }
    }
}

fn valid_tpl(fields: &[FieldSpec]) -> bool {
    !fields.is_empty() && ipfix_min_record(fields) > 0 && fields.iter().any(|f| f.len > 0)
}

fn mix_tpl(which: usize) -> IpfixTpl {
    match which {
        0 => IpfixTpl { id: 256, fields: vec![fs(1, 4), fs(7, 2)] },
        1 => IpfixTpl { id: 257, fields: vec![fs(8, 4), fs(4, 1), fs(5, 1)] },
        // same field count and record size as template 0, different fields
        3 => IpfixTpl { id: 256, fields: vec![fs(7, 2), fs(2, 4)] },
        // a redefinition that introduces an information element the library does not know
        4 => IpfixTpl { id: 256, fields: vec![fs(1, 4), fs(600, 2)] },
        _ => IpfixTpl { id: 256, fields: vec![fs(2, 8), fs(82, 4)] },
    }
}
fn mix_opt() -> IpfixOptTpl {
    IpfixOptTpl { id: 258, scope_count: 1, fields: vec![fs(149, 4), fs(41, 2), fs(42, 2)] }
}
fn mix_body(salt: usize, pad: usize) -> Vec<u8> {
    let mut b: Vec<u8> = (0..12).map(|j| fill(salt, j)).collect();
    b.extend(std::iter::repeat(0).take(pad));
    b
}
fn mix_set(k: usize, pos: usize) -> IpfixSet {
    match k {
        0 => IpfixSet::Tpl(vec![mix_tpl(0)], 0),
        1 => IpfixSet::Tpl(vec![mix_tpl(1)], 0),
        2 => IpfixSet::OptTpl(vec![mix_opt()], 0),
        3 => IpfixSet::Data(256, mix_body(10 + pos, pos % 4)),
        4 => IpfixSet::Data(257, mix_body(20 + pos, (pos + 1) % 4)),
        5 => IpfixSet::Data(258, mix_body(30 + pos, 0)[..8].to_vec()),
        6 => IpfixSet::Tpl(vec![mix_tpl(2)], 0),
        // data for an id nobody defines
        7 => IpfixSet::Data(999, mix_body(40 + pos, 0)),
        8 => IpfixSet::Tpl(vec![mix_tpl(3)], 0),
        9 => IpfixSet::Tpl(vec![mix_tpl(4)], 0),
        // an options template under the id the plain templates use: the id changes kind
        10 => IpfixSet::OptTpl(vec![IpfixOptTpl { id: 256, scope_count: 1, fields: vec![fs(149, 2), fs(41, 2), fs(42, 4)] }], 0),
        // 8 data bytes for 256: one record of that options template, one record and two bytes under template 0, less
        // than a record under the 12-byte templates
        _ => IpfixSet::Data(256, mix_body(50 + pos, 0)[..8].to_vec()),
    }
}

pub fn streams(tier: &str) -> Vec<StreamGen> {
    streams_with(tier, if tier == "thorough" { 5 } else { 4 })
}

/// `lists`: length bound of the multi-field template lists (the properties whose oracle is costly per evaluation -
/// serialisation, the second build - take one less in each tier)
pub fn streams_with(tier: &str, lists: usize) -> Vec<StreamGen> {
    let thorough = tier == "thorough";
    let mut v: Vec<StreamGen> = vec![];

    // 1. single-field sweep (fixed-length specs): every IE x supported width x value menu x delivery x padding
    {
        let mut cases: Vec<(FieldSpec, Vec<u8>)> = vec![];
        for f in ipfix_sweep() {
            if f.len == 65535 {
                continue;
            }
            for val in values(class_ipfix(&f), f.len as usize) {
                cases.push((f, val));
            }
        }
        let n = cases.len() as u64;
        let mk = move |i: u64| {
            let d = digits(i, &[n, 3, 4]);
            let (f, val) = &cases[d[0] as usize];
            let fields = vec![*f];
            let body = body_for(&fields, 2, d[2] as usize, Some((0, 0, val)));
            deliver(IpfixSet::Tpl(vec![IpfixTpl { id: 300, fields }], 0), IpfixSet::Data(300, body), d[1])
        };
                v.push(stream_gen("ipfix-single-field-sweep-fixed", n * 12, move |i| Some(mk(i))));
    }
    // 1b. variable-length specs: every pair of consecutive record lengths x prefix forms x delivery
    {
        let specs: Vec<FieldSpec> = ipfix_sweep().into_iter().filter(|f| f.len == 65535).collect();
        let specs: Vec<FieldSpec> = if thorough { specs } else { specs.into_iter().step_by(7).collect() };
        let n = specs.len() as u64;
        let mk = move |i: u64| {
            let d = digits(i, &[n, 6, 6, 2, 2, 3, 2]);
            let f = specs[d[0] as usize];
            let fields = vec![f, fs(4, 1)];
            let mut body = vec![];
            for (r, (l, long)) in [(VARLENS[d[1] as usize], d[3] == 1), (VARLENS[d[2] as usize], d[4] == 1)].iter().enumerate() {
                body.extend(ipfix_field_bytes(&f, &rec_value(r, 0, *l), *long));
                body.push(0x60 + r as u8);
            }
            if d[6] == 1 {
                body.push(0); // one byte of padding (< minimal record of 2 bytes)
            }
            deliver(IpfixSet::Tpl(vec![IpfixTpl { id: 301, fields }], 0), IpfixSet::Data(301, body), d[5])
        };
                v.push(stream_gen("ipfix-variable-length-record-pairs", n * 6 * 6 * 2 * 2 * 3 * 2, move |i| Some(mk(i))));
    }
    // 2. multi-field templates over the class representatives
    {
        let reps = ipfix_reps();
        let maxlen = lists;
        let nl = list_count(reps.len(), maxlen);
        let r2 = reps.clone();
        let mk = move |i: u64| -> Option<Vec<Vec<u8>>> {
            let d = digits(i, &[nl, 3, 4, 3]);
            let fields: Vec<FieldSpec> = list_at(reps.len(), maxlen, d[0]).into_iter().map(|k| reps[k]).collect();
            if !valid_tpl(&fields) {
                return None;
            }
            let body = body_for(&fields, d[1] as usize + 1, d[2] as usize, None);
            Some(deliver(IpfixSet::Tpl(vec![IpfixTpl { id: 256, fields }], 0), IpfixSet::Data(256, body), d[3]))
        };
                v.push(stream_gen(&format!("ipfix-multi-field-lists<={}", maxlen), nl * 36, mk));
        let reps = r2;
        let nl2 = list_count(reps.len(), 2);
        let mk = move |i: u64| -> Option<Vec<Vec<u8>>> {
            let d = digits(i, &[nl2, 2, 12, 2]);
            let fields: Vec<FieldSpec> = list_at(reps.len(), 2, d[0]).into_iter().map(|k| reps[k]).collect();
            let k = d[1] as usize;
            if k >= fields.len() || !valid_tpl(&fields) || fields[k].len == 65535 {
                return None;
            }
            let vals = values(class_ipfix(&fields[k]), fields[k].len as usize);
            let val = vals.get(d[2] as usize)?.clone();
            let body = body_for(&fields, 3, 1, Some((d[3] as usize + 1, k, &val)));
            Some(deliver(IpfixSet::Tpl(vec![IpfixTpl { id: 256, fields }], 0), IpfixSet::Data(256, body), 1))
        };
                v.push(stream_gen("ipfix-multi-field-single-value-deviation", nl2 * 2 * 12 * 2, mk));
    }
    // 3. options templates: scope count 1..=2 x field lists of length 1..=3 over 6 reps x records x padding x delivery
    {
        let reps: Vec<FieldSpec> = vec![fs(149, 4), fs(41, 8), fs(82, 65535), fs(144, 4), fse(5, 2, 77), fs(4, 1)];
        let nl = list_count(reps.len(), 3);
        let mk = move |i: u64| -> Option<Vec<Vec<u8>>> {
            let d = digits(i, &[nl, 2, 3, 4, 3]);
            let fields: Vec<FieldSpec> = list_at(reps.len(), 3, d[0]).into_iter().map(|k| reps[k]).collect();
            let sc = d[1] as u16 + 1;
            if sc as usize > fields.len() || !valid_tpl(&fields) {
                return None;
            }
            let body = body_for(&fields, d[2] as usize + 1, d[3] as usize, None);
            Some(deliver(IpfixSet::OptTpl(vec![IpfixOptTpl { id: 400, scope_count: sc, fields }], 0), IpfixSet::Data(400, body), d[4]))
        };
                v.push(stream_gen("ipfix-options-templates", nl * 2 * 3 * 4 * 3, mk));
    }
    // 4. 1..=3 template records per template set / options-template set, then data for each id
    {
        let mk = move |i: u64| -> Vec<Vec<u8>> {
            let d = digits(i, &[3, 2, 3, 2, 4]);
            let n = d[0] as usize + 1;
            let tpls: Vec<Vec<FieldSpec>> = vec![vec![fs(8, 4), fs(7, 2)], vec![fs(27, 16), fse(3, 3, 5)], vec![fs(82, 65535), fs(4, 1)]];
            let set = if d[1] == 0 {
                IpfixSet::Tpl((0..n).map(|k| IpfixTpl { id: 256 + k as u16, fields: tpls[k].clone() }).collect(), (d[4] as usize).min(3))
            } else {
                IpfixSet::OptTpl((0..n).map(|k| IpfixOptTpl { id: 256 + k as u16, scope_count: 1, fields: tpls[k].clone() }).collect(), (d[4] as usize).min(3))
            };
            let data: Vec<IpfixSet> = (0..n).map(|k| IpfixSet::Data(256 + k as u16, body_for(&tpls[k], d[2] as usize + 1, 0, None))).collect();
            if d[3] == 0 {
                vec![ipfix_message(&IpfixMsg::new(std::iter::once(set).chain(data).collect()))]
            } else {
                vec![ipfix_message(&IpfixMsg::new(vec![set])), ipfix_message(&IpfixMsg::new(data))]
            }
        };
                v.push(stream_gen("ipfix-template-records-per-set", 3 * 2 * 3 * 2 * 4, move |i| Some(mk(i))));
    }
    // 5. set mixes: all sequences of <= 3 (thorough 5) sets over a 12-set menu x prior context
    {
        let maxlen = if thorough { 5 } else { 3 };
        let nl = list_count(12, maxlen);
        let mk = move |i: u64| -> Vec<Vec<u8>> {
            let d = digits(i, &[nl, 2]);
            let seq = list_at(12, maxlen, d[0]);
            let sets: Vec<IpfixSet> = seq.iter().enumerate().map(|(pos, k)| mix_set(*k, pos)).collect();
            let mut calls = vec![];
            if d[1] == 1 {
                calls.push(ipfix_message(&IpfixMsg::new(vec![IpfixSet::Tpl(vec![mix_tpl(0)], 0), IpfixSet::Tpl(vec![mix_tpl(1)], 0), IpfixSet::OptTpl(vec![mix_opt()], 0)])));
            }
            calls.push(ipfix_message(&IpfixMsg::new(sets)));
            calls
        };
                v.push(stream_gen(&format!("ipfix-set-mixes<={}", maxlen), nl * 2, move |i| Some(mk(i))));
    }
    // 6. header values: every header field x threshold menu
    {
        let menu: Vec<u32> = values(Class::Unsigned, 4).into_iter().map(|x| u32::from_be_bytes([x[0], x[1], x[2], x[3]])).collect();
        let nm = menu.len() as u64;
        let mk = move |i: u64| -> Vec<Vec<u8>> {
            let d = digits(i, &[3, nm]);
            let x = menu[d[1] as usize];
            let f = vec![fs(1, 4)];
            let mut m = IpfixMsg::new(vec![IpfixSet::Tpl(vec![IpfixTpl { id: 256, fields: f.clone() }], 0), IpfixSet::Data(256, body_for(&f, 1, 0, None))]);
            match d[0] {
                0 => m.export_time = x,
                1 => m.seq = x,
                _ => m.odid = x,
            }
            vec![ipfix_message(&m)]
        };
        v.push(stream_gen("ipfix-header-values", 3 * nm, move |i| Some(mk(i))));
    }
    // 7. wide templates: 10, 11, 12, 16, 33, 100, 257 (thorough 1000, 4000) fields cycling through the fixed-length representatives
    {
        let reps: Vec<FieldSpec> = ipfix_reps().into_iter().filter(|f| f.len > 0 && f.len != 65535).collect();
        let widths: Vec<usize> = if thorough { vec![10, 11, 12, 16, 33, 100, 257, 1000, 4000] } else { vec![10, 11, 12, 16, 33, 100, 257] };
        let nw = widths.len() as u64;
        let mk = move |i: u64| -> Vec<Vec<u8>> {
            let d = digits(i, &[nw, 2, 3]);
            let n = widths[d[0] as usize];
            let fields: Vec<FieldSpec> = (0..n).map(|k| reps[(k * 7 + k / reps.len()) % reps.len()]).collect();
            let body = body_for(&fields, d[1] as usize + 1, 0, None);
            deliver(IpfixSet::Tpl(vec![IpfixTpl { id: 256, fields }], 0), IpfixSet::Data(256, body), d[2])
        };
        v.push(stream_gen("ipfix-wide-templates", nw * 6, move |i| Some(mk(i))));
    }
    // 7b. the same information element listed twice (or three times) with different widths
    {
        let menu: Vec<(u16, Vec<u16>)> = vec![(1, vec![1, 2, 4, 8]), (82, vec![2, 5, 65535]), (434, vec![1, 2, 4]), (152, vec![4, 8])];
        let mut cases: Vec<Vec<FieldSpec>> = vec![];
        for (ty, ws) in &menu {
            for a in ws {
                for b in ws {
                    if a != b {
                        cases.push(vec![fs(*ty, *a), fs(7, 2), fs(*ty, *b)]);
                        cases.push(vec![fs(*ty, *a), fs(*ty, *b), fs(*ty, *a)]);
                    }
                }
            }
        }
        let nc = cases.len() as u64;
        let mk = move |i: u64| -> Vec<Vec<u8>> {
            let d = digits(i, &[nc, 3]);
            let fields = cases[d[0] as usize].clone();
            let body = body_for(&fields, 2, 0, None);
            deliver(IpfixSet::Tpl(vec![IpfixTpl { id: 256, fields }], 0), IpfixSet::Data(256, body), d[1])
        };
        v.push(stream_gen("ipfix-same-element-at-different-widths", nc * 3, move |i| Some(mk(i))));
    }
    // 8. many records per data set: counts around every power of two up to what one message holds, four template
    // shapes (one with a variable-length element), template delivered in the same message / same buffer / earlier call
    {
        let shapes: Vec<Vec<FieldSpec>> = vec![vec![fs(4, 1)], vec![fs(1, 4)], vec![fs(8, 4), fs(7, 2), fs(4, 1), fs(5, 1)], vec![fs(82, 65535), fs(4, 1)]];
        let mut counts: Vec<usize> = vec![];
        for k in 2..=16u32 {
            let p = 1usize << k;
            counts.extend([p - 1, p, p + 1]);
        }
        counts.extend([100, 1000, 10000]);
        let (ns, nc) = (shapes.len() as u64, counts.len() as u64);
        let mk = move |i: u64| -> Option<Vec<Vec<u8>>> {
            let d = digits(i, &[ns, nc, 3]);
            let fields = shapes[d[0] as usize].clone();
            let n = counts[d[1] as usize];
            let body = body_for(&fields, n, 0, None);
            if body.len() + 4 + 16 + 8 + 4 * fields.len() + 4 > 65535 {
                return None;
            }
            Some(deliver(IpfixSet::Tpl(vec![IpfixTpl { id: 256, fields }], 0), IpfixSet::Data(256, body), d[2]))
        };
        v.push(stream_gen("ipfix-many-records-per-set", ns * nc * 3, mk));
    }
    v
}

pub fn run(tier: &str) -> i32 {
    let thorough = tier == "thorough";
    let rep = Report {
        prop: "C05".into(),
        tier: tier.into(),
        level: "model_checking",
        rule: "every index of each space is a conformant IPFIX stream (1..3 calls on one fresh parser) built from finite menus: every IE 0..=520(+extras, + enterprise variants) x supported width x value menu x delivery x padding; variable-length IEs x every pair of consecutive record lengths from {0,1,2,254,255,300} x short/long prefix; all lists of class representatives of length <= 4 (thorough 5); options templates; 1..=3 template records per set; all set sequences of length <= 3 (thorough 6) over a 12-set menu incl. data for an undefined id. Each call's result is compared with the RFC 7011 reference decode (flattened to (field index, name, value)); an outcome is distinct by the hash of the canonical results".into(),
        bounds: json!({"history_depth": 3, "multi_field_list_len": if thorough {5} else {4}, "set_sequence_len": if thorough {6} else {3}, "records_per_set": "1..=3", "padding": "0..=3 and shorter than the minimal record"}),
        assumptions: vec!["IE number -> (name, value class) is the library's own table (pinned by its lookup snapshot tests)".into(), "template withdrawals are not generated".into()],
        trusted_base: vec!["refmodel::ref_ipfix_sets (RFC 7011 reference decoder) and refmodel::decode".into()],
        required_tags: vec![],
        extra: Default::default(),
    };
    run_report(rep, streams(tier).into_iter().map(|g| g.into_space(|c| judge_stream(c).eval)).collect())
}
