pub mod c03;
pub mod c08;
