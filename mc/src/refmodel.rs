//! Reference model: "boring" decoders for conformant V5/V7/V9/IPFIX streams written from the Cisco layouts,
//! RFC 3954 and RFC 7011, with a latest-definition-wins template cache.  The only thing taken from the library
//! is the table field number -> (name, value class) (see DESIGN.md §2, trusted base).
use crate::cform::*;
use crate::util::{r16, r32};
use crate::wire::FieldSpec;
use netflow_parser::variable_versions::data_number::FieldDataType;
use netflow_parser::variable_versions::ipfix_lookup::IPFixField;
use netflow_parser::variable_versions::v9_lookup::V9Field;
use std::collections::BTreeMap;

#[derive(Clone, Copy, PartialEq, Eq, Debug, Hash)]
pub enum Class {
    Unsigned,
    Signed,
    Str,
    F64,
    DurS,
    DurMs,
    DurUs,
    DurNs,
    Ip4,
    Ip6,
    Mac,
    Vec,
    Proto,
    Unknown,
}
fn class_of(d: FieldDataType) -> Class {
    match d {
        FieldDataType::String => Class::Str,
        FieldDataType::SignedDataNumber => Class::Signed,
        FieldDataType::UnsignedDataNumber => Class::Unsigned,
        FieldDataType::Float64 => Class::F64,
        FieldDataType::DurationSeconds => Class::DurS,
        FieldDataType::DurationMillis => Class::DurMs,
        FieldDataType::DurationMicros => Class::DurUs,
        FieldDataType::DurationNanos => Class::DurNs,
        FieldDataType::Ip4Addr => Class::Ip4,
        FieldDataType::Ip6Addr => Class::Ip6,
        FieldDataType::MacAddr => Class::Mac,
        FieldDataType::Vec => Class::Vec,
        FieldDataType::ProtocolType => Class::Proto,
        FieldDataType::Unknown => Class::Unknown,
    }
}
pub fn class_v9(ty: u16) -> Class {
    class_of(FieldDataType::from(V9Field::from(ty)))
}
pub fn name_v9(ty: u16) -> String {
    format!("{:?}", V9Field::from(ty))
}
pub fn class_ipfix(f: &FieldSpec) -> Class {
    if f.pen.is_some() {
        Class::Vec
    } else {
        class_of(FieldDataType::from(IPFixField::from(f.ty)))
    }
}
pub fn name_ipfix(f: &FieldSpec) -> String {
    if f.pen.is_some() {
        "Enterprise".to_string()
    } else {
        format!("{:?}", IPFixField::from(f.ty))
    }
}
pub fn scope_name(ty: u16) -> Option<&'static str> {
    Some(match ty {
        1 => "Scope:System",
        2 => "Scope:Interface",
        3 => "Scope:LineCard",
        4 => "Scope:NetflowCache",
        5 => "Scope:Template",
        _ => return None,
    })
}

/// widths at which a class has a defined big-endian interpretation ("supported widths")
pub fn supported(c: Class, w: usize) -> bool {
    match c {
        Class::Unsigned | Class::Signed => matches!(w, 1 | 2 | 3 | 4 | 8 | 16),
        Class::Str | Class::Vec | Class::Unknown => true,
        Class::F64 => w == 8,
        Class::DurS | Class::DurMs | Class::DurUs | Class::DurNs => matches!(w, 1 | 2 | 3 | 4 | 8),
        Class::Ip4 => w == 4,
        Class::Ip6 => w == 16,
        Class::Mac => w == 6,
        Class::Proto => w == 1,
    }
}

fn be_u(b: &[u8]) -> u128 {
    b.iter().fold(0u128, |a, x| (a << 8) | *x as u128)
}
fn be_s(b: &[u8]) -> i128 {
    let u = be_u(b);
    let bits = b.len() * 8;
    if bits == 128 {
        u as i128
    } else if bits > 0 && (u >> (bits - 1)) & 1 == 1 {
        (u as i128) - (1i128 << bits)
    } else {
        u as i128
    }
}

/// Big-endian interpretation of exactly `b` in value class `c`.  None = unsupported width.
pub fn decode(c: Class, b: &[u8]) -> Option<CVal> {
    if !supported(c, b.len()) {
        return None;
    }
    Some(match c {
        Class::Unsigned => match b.len() {
            1 => CVal::U8(b[0]),
            2 => CVal::U16(be_u(b) as u16),
            3 => CVal::U24(be_u(b) as u32),
            4 => CVal::U32(be_u(b) as u32),
            8 => CVal::U64(be_u(b) as u64),
            _ => CVal::U128(be_u(b)),
        },
        Class::Signed => CVal::S(be_s(b)),
        Class::Str => CVal::Str(String::from_utf8_lossy(b).to_string()),
        Class::F64 => CVal::F64(be_u(b) as u64),
        Class::DurS => CVal::Dur(be_u(b) as u64, 0),
        Class::DurMs => {
            let v = be_u(b) as u64;
            CVal::Dur(v / 1000, ((v % 1000) * 1_000_000) as u32)
        }
        Class::DurUs => {
            let v = be_u(b) as u64;
            CVal::Dur(v / 1_000_000, ((v % 1_000_000) * 1000) as u32)
        }
        Class::DurNs => {
            let v = be_u(b) as u64;
            CVal::Dur(v / 1_000_000_000, (v % 1_000_000_000) as u32)
        }
        Class::Ip4 => CVal::Ip4([b[0], b[1], b[2], b[3]]),
        Class::Ip6 => {
            let mut a = [0u8; 16];
            a.copy_from_slice(b);
            CVal::Ip6(a)
        }
        Class::Mac => CVal::Mac(format!("{:02X}:{:02X}:{:02X}:{:02X}:{:02X}:{:02X}", b[0], b[1], b[2], b[3], b[4], b[5])),
        Class::Vec => CVal::Bytes(b.to_vec()),
        Class::Proto => CVal::Proto(iana_name(b[0]).to_string()),
        Class::Unknown => CVal::Bytes(b.to_vec()),
    })
}

// ------------------------------------------------------------------------------------------------ defect models

/// Executable models of the *recorded* defects (known_findings.json).  With `on == false` the reference is the
/// pure specification.  With `on == true` it reproduces each recorded defect and notes which ones changed the
/// expectation (`fired`), so that a check can still demand the strongest relation that holds under them.
#[derive(Default, Clone, Debug)]
pub struct Q {
    pub on: bool,
    pub fired: std::collections::BTreeSet<&'static str>,
}
impl Q {
    pub fn pure() -> Q {
        Q { on: false, fired: Default::default() }
    }
    pub fn quirky() -> Q {
        Q { on: true, fired: Default::default() }
    }
    fn fire(&mut self, s: &'static str) {
        self.fired.insert(s);
    }
}

// ------------------------------------------------------------------------------------------------ cache

#[derive(Clone, PartialEq, Eq, Hash, Debug)]
pub enum RefTpl {
    Plain(Vec<FieldSpec>),
    V9Opt(Vec<FieldSpec>, Vec<FieldSpec>),
    IpfixOpt(u16, Vec<FieldSpec>),
}
impl RefTpl {
    pub fn wire_size(&self) -> usize {
        match self {
            RefTpl::Plain(f) => 4 + f.iter().map(|x| if x.pen.is_some() { 8 } else { 4 }).sum::<usize>(),
            RefTpl::V9Opt(a, b) => 6 + 4 * (a.len() + b.len()),
            RefTpl::IpfixOpt(_, f) => 6 + f.iter().map(|x| if x.pen.is_some() { 8 } else { 4 }).sum::<usize>(),
        }
    }
}
/// latest definition (of either kind) per (protocol, id)
#[derive(Clone, Default, PartialEq, Eq, Hash, Debug)]
pub struct RefCache {
    pub v9: BTreeMap<u16, RefTpl>,
    pub ipfix: BTreeMap<u16, RefTpl>,
}

#[derive(Clone, PartialEq, Eq, Debug)]
pub enum RefStop {
    /// the buffer ends before the end announced by the packet's own header
    Truncated,
    /// V9 data flowset for an id the cache does not hold: the packet is reported as an error
    UnknownTemplateV9(u16),
    /// not a conformant stream: outside the domain of the reference model
    NonConformant(String),
}
fn nc<T>(s: &str) -> Result<T, RefStop> {
    Err(RefStop::NonConformant(s.to_string()))
}

// ------------------------------------------------------------------------------------------------ V5 / V7

pub fn iana_name(n: u8) -> &'static str {
    match n {
        0..=144 => crate::iana::IANA[n as usize],
        255 => crate::iana::IANA_255,
        // 145..=254: the enum cannot name them
        _ => "Unknown",
    }
}

fn fixed_fields(tab: &[(&'static str, usize, usize)], b: &[u8]) -> Vec<(&'static str, u64)> {
    tab.iter().map(|(n, o, l)| (*n, be_u(&b[*o..*o + *l]) as u64)).collect()
}

/// Decode a buffer that starts with a V5 or V7 packet by the Cisco offset tables.
pub fn ref_fixed(b: &[u8]) -> Result<(CFixed, usize), RefStop> {
    if b.len() < 2 {
        return Err(RefStop::Truncated);
    }
    let version = r16(b, 0);
    let (htab, rtab, rs): (&[(&str, usize, usize)], &[(&str, usize, usize)], usize) = match version {
        5 => (&V5_HDR, &V5_REC, 48),
        7 => (&V7_HDR, &V7_REC, 52),
        _ => return nc("not v5/v7"),
    };
    if b.len() < 24 {
        return Err(RefStop::Truncated);
    }
    let count = r16(b, 2) as usize;
    let total = 24 + rs * count;
    if b.len() < total {
        return Err(RefStop::Truncated);
    }
    let hdr = fixed_fields(htab, b);
    let mut recs = vec![];
    let mut protos = vec![];
    for i in 0..count {
        let r = &b[24 + i * rs..24 + (i + 1) * rs];
        recs.push(fixed_fields(rtab, r));
        protos.push(iana_name(r[38]).to_string());
    }
    Ok((CFixed { version, hdr, recs, protos }, total))
}

// ------------------------------------------------------------------------------------------------ V9

fn ctf_v9(f: &FieldSpec) -> CTplField {
    CTplField { ty: f.ty, name: name_v9(f.ty), len: f.len, pen: None }
}

fn v9_plain_records(fields: &[FieldSpec], body: &[u8]) -> Result<(Vec<CField>, usize, Vec<u8>), RefStop> {
    let rs: usize = fields.iter().map(|f| f.len as usize).sum();
    if rs == 0 {
        // a definition whose fields add up to zero bytes cannot delimit records: data for it is undecodable
        return Err(RefStop::UnknownTemplateV9(0));
    }
    let n = body.len() / rs;
    let mut flat = vec![];
    let mut o = 0;
    for _ in 0..n {
        for (k, f) in fields.iter().enumerate() {
            let w = f.len as usize;
            let c = class_v9(f.ty);
            let v = match decode(c, &body[o..o + w]) {
                Some(v) => v,
                None => return nc("unsupported width"),
            };
            flat.push((k, name_v9(f.ty), v));
            o += w;
        }
    }
    Ok((flat, n, body[o..].to_vec()))
}

fn v9_opt_records(scope: &[FieldSpec], opts: &[FieldSpec], body: &[u8]) -> Result<(Vec<CField>, usize, Vec<u8>), RefStop> {
    let rs: usize = scope.iter().chain(opts.iter()).map(|f| f.len as usize).sum();
    if rs == 0 {
        return nc("v9 options template with record size 0");
    }
    let n = body.len() / rs;
    let mut flat = vec![];
    let mut o = 0;
    for _ in 0..n {
        let mut k = 0;
        for f in scope {
            let w = f.len as usize;
            let name = match scope_name(f.ty) {
                Some(n) => n,
                None => return nc("scope type outside 1..=5"),
            };
            flat.push((k, name.to_string(), CVal::Bytes(body[o..o + w].to_vec())));
            o += w;
            k += 1;
        }
        for f in opts {
            let w = f.len as usize;
            flat.push((k, name_v9(f.ty), CVal::Bytes(body[o..o + w].to_vec())));
            o += w;
            k += 1;
        }
    }
    Ok((flat, n, body[o..].to_vec()))
}

/// Decode one V9 export packet at the start of `b`.  The packet extends over at most `count` flowsets
/// (the library's and C11's reading of the count field) or to the end of the buffer.
pub fn ref_v9(b: &[u8], cache: &mut RefCache, q: &mut Q) -> Result<(CVar, usize), RefStop> {
    if b.len() < 20 {
        return Err(RefStop::Truncated);
    }
    let count = r16(b, 2);
    let hdr = vec![count as u64, r32(b, 4) as u64, r32(b, 8) as u64, r32(b, 12) as u64, r32(b, 16) as u64];
    let mut o = 20;
    let mut sets = vec![];
    // a template learned in this packet is visible to later flowsets of it even if the packet later fails? —
    // the reference commits as it walks (RFC 3954 has no transactional notion); C06 judges the cache separately.
    for _ in 0..count {
        if o >= b.len() {
            break;
        }
        if b.len() - o < 4 {
            return Err(RefStop::Truncated);
        }
        let id = r16(b, o);
        let len = r16(b, o + 2) as usize;
        if len < 4 {
            return nc("flowset length < 4");
        }
        if b.len() - o < len {
            return Err(RefStop::Truncated);
        }
        let body = &b[o + 4..o + len];
        let cb = match id {
            0 => {
                let mut r = body;
                let mut ts = vec![];
                while r.len() >= 4 {
                    let tid = r16(r, 0);
                    let cnt = r16(r, 2) as usize;
                    if r.len() < 4 + 4 * cnt {
                        break; // an incomplete trailing record defines nothing; the bytes are padding
                    }
                    let fields: Vec<FieldSpec> = (0..cnt).map(|i| FieldSpec { ty: r16(r, 4 + 4 * i), len: r16(r, 6 + 4 * i), pen: None }).collect();
                    ts.push(CTpl::Plain(tid, cnt as u16, fields.iter().map(ctf_v9).collect()));
                    cache.v9.insert(tid, RefTpl::Plain(fields));
                    r = &r[4 + 4 * cnt..];
                }
                CBody::Tpl(ts, r.to_vec())
            }
            1 => {
                let mut r = body;
                let mut ts = vec![];
                while r.len() >= 6 {
                    let tid = r16(r, 0);
                    let sl = r16(r, 2) as usize;
                    let ol = r16(r, 4) as usize;
                    if sl % 4 != 0 || ol % 4 != 0 {
                        return nc("scope/option length not a multiple of 4");
                    }
                    if r.len() < 6 + sl + ol {
                        break;
                    }
                    let rd = |base: usize, n: usize| -> Vec<FieldSpec> { (0..n).map(|i| FieldSpec { ty: r16(r, base + 4 * i), len: r16(r, base + 2 + 4 * i), pen: None }).collect() };
                    let scope = rd(6, sl / 4);
                    let opts = rd(6 + sl, ol / 4);
                    ts.push(CTpl::V9Opt(
                        tid,
                        sl as u16,
                        ol as u16,
                        scope
                            .iter()
                            .map(|f| CTplField { ty: f.ty, name: format!("Scope:{:?}", netflow_parser::variable_versions::v9_lookup::ScopeFieldType::from(f.ty)), len: f.len, pen: None })
                            .collect(),
                        opts.iter().map(ctf_v9).collect(),
                    ));
                    cache.v9.insert(tid, RefTpl::V9Opt(scope, opts));
                    r = &r[6 + sl + ol..];
                }
                CBody::OptTpl(ts, r.to_vec())
            }
            _ => match cache.v9.get(&id) {
                None => return Err(RefStop::UnknownTemplateV9(id)),
                Some(RefTpl::Plain(f)) => {
                    let (flat, n, pad) = v9_plain_records(f, body)?;
                    CBody::Data(flat, Some(n), pad)
                }
                Some(RefTpl::V9Opt(s, op)) => {
                    let (mut flat, mut n, mut pad) = v9_opt_records(s, op, body)?;
                    if q.on && n > 1 {
                        // recorded defect: the structure holds one record; the others are left in the padding
                        q.fire("v9/options-data/records>1");
                        let rs: usize = s.iter().chain(op.iter()).map(|f| f.len as usize).sum();
                        flat.truncate(s.len() + op.len());
                        n = 1;
                        pad = body[rs..].to_vec();
                    }
                    CBody::OptData(flat, Some(n), pad)
                }
                Some(RefTpl::IpfixOpt(..)) => return nc("internal: ipfix template in v9 cache"),
            },
        };
        sets.push(CSet { id, len: len as u16, body: cb });
        o += len;
    }
    Ok((CVar { version: 9, hdr, sets }, o))
}

// ------------------------------------------------------------------------------------------------ IPFIX

fn ctf_ipfix(f: &FieldSpec) -> CTplField {
    CTplField { ty: f.ty, name: name_ipfix(f), len: f.len, pen: f.pen }
}

fn ipfix_fieldspecs(r: &[u8], n: usize) -> Option<(Vec<FieldSpec>, usize)> {
    let mut o = 0;
    let mut v = vec![];
    for _ in 0..n {
        if r.len() < o + 4 {
            return None;
        }
        let ty = r16(r, o);
        let len = r16(r, o + 2);
        o += 4;
        if ty & 0x8000 != 0 {
            if r.len() < o + 4 {
                return None;
            }
            v.push(FieldSpec { ty: ty & 0x7fff, len, pen: Some(r32(r, o)) });
            o += 4;
        } else {
            v.push(FieldSpec { ty, len, pen: None });
        }
    }
    Some((v, o))
}

pub fn ipfix_min_record(fields: &[FieldSpec]) -> usize {
    fields.iter().map(|f| if f.len == 65535 { 1 } else { f.len as usize }).sum()
}

/// decode one record; returns (fields, bytes consumed) or None if the bytes end inside it
pub fn ipfix_record(fields: &[FieldSpec], b: &[u8]) -> Result<Option<(Vec<CField>, usize)>, RefStop> {
    let mut o = 0;
    let mut out = vec![];
    for (k, f) in fields.iter().enumerate() {
        let w = if f.len == 65535 {
            if b.len() < o + 1 {
                return Ok(None);
            }
            let l = b[o] as usize;
            o += 1;
            if l == 255 {
                if b.len() < o + 2 {
                    return Ok(None);
                }
                let l = r16(b, o) as usize;
                o += 2;
                l
            } else {
                l
            }
        } else {
            f.len as usize
        };
        if b.len() < o + w {
            return Ok(None);
        }
        let v = match decode(class_ipfix(f), &b[o..o + w]) {
            Some(v) => v,
            None => return nc("unsupported width"),
        };
        out.push((k, name_ipfix(f), v));
        o += w;
    }
    Ok(Some((out, o)))
}

/// Some(..) = decoded; None = (defect model only) the whole set is undecodable
fn ipfix_records(fields: &[FieldSpec], body: &[u8], q: &mut Q) -> Result<Option<(Vec<CField>, usize, Vec<u8>)>, RefStop> {
    let min = ipfix_min_record(fields);
    if min == 0 || fields.is_empty() {
        return nc("ipfix template whose minimal record length is 0");
    }
    if q.on {
        // recorded defect: the record loop continues iff the bytes left are at least the size of the record
        // just decoded, and a record that then fails to decode makes the whole set undecodable
        let pure = ipfix_records(fields, body, &mut Q::pure()).ok().flatten();
        let mut o = 0;
        let mut flat = vec![];
        let mut n = 0;
        let model = loop {
            match ipfix_record(fields, &body[o..])? {
                Some((f, used)) => {
                    flat.extend(trunc_signed(f, q));
                    o += used;
                    n += 1;
                    if body.len() - o < used {
                        break Some((flat, n, body[o..].to_vec()));
                    }
                }
                None => break None,
            }
        };
        let pure_t = pure.map(|(f, n, p)| (trunc_signed(f, &mut Q::quirky()), n, p));
        if model != pure_t {
            q.fire("ipfix/data/record-loop-termination");
        }
        return Ok(model);
    }
    let mut o = 0;
    let mut flat = vec![];
    let mut n = 0;
    while body.len() - o >= min {
        match ipfix_record(fields, &body[o..])? {
            Some((f, used)) => {
                flat.extend(f);
                o += used;
                n += 1;
            }
            None => return nc("data set ends inside a record"),
        }
    }
    if n == 0 {
        // nothing but (at most) padding: the set cannot be decoded; it defines no record and, like any data set,
        // changes no cache
        return Ok(None);
    }
    Ok(Some((flat, n, body[o..].to_vec())))
}

/// recorded defect: signed values wider than 32 bits are truncated to their low 32 bits
fn trunc_signed(f: Vec<CField>, q: &mut Q) -> Vec<CField> {
    f.into_iter()
        .map(|(k, n, v)| match v {
            CVal::S(x) if x > i32::MAX as i128 || x < i32::MIN as i128 => {
                q.fire("ipfix/data/signed-wider-than-32-bits");
                (k, n, CVal::S((x as i64) as i32 as i128))
            }
            v => (k, n, v),
        })
        .collect()
}

/// recorded defect: a template set is parsed as ONE record whose field list runs greedily to the end of the set
fn quirk_ipfix_template_set(body: &[u8]) -> Option<(u16, u16, Vec<FieldSpec>, Vec<u8>)> {
    if body.len() < 4 {
        return None;
    }
    let tid = r16(body, 0);
    let cnt = r16(body, 2);
    let mut o = 4;
    let mut fields = vec![];
    loop {
        if body.len() < o + 4 {
            break;
        }
        let ty = r16(body, o);
        let len = r16(body, o + 2);
        if ty & 0x8000 != 0 {
            if body.len() < o + 8 {
                break;
            }
            fields.push(FieldSpec { ty: ty & 0x7fff, len, pen: Some(r32(body, o + 4)) });
            o += 8;
        } else {
            fields.push(FieldSpec { ty, len, pen: None });
            o += 4;
        }
    }
    Some((tid, cnt, fields, body[o..].to_vec()))
}

/// What the reference says about every set of a message, including the ones that cannot be decoded.
#[derive(Clone, PartialEq, Debug)]
pub enum RefSet {
    Decoded(CSet),
    /// data set for an id the cache does not hold: omitted from the result
    UnknownTemplate(u16),
}

pub fn ref_ipfix_sets(b: &[u8], cache: &mut RefCache, q: &mut Q) -> Result<(Vec<u64>, Vec<RefSet>, usize), RefStop> {
    if b.len() < 16 {
        return Err(RefStop::Truncated);
    }
    let length = r16(b, 2) as usize;
    if length < 16 {
        return nc("message length < 16");
    }
    if b.len() < length {
        return Err(RefStop::Truncated);
    }
    let hdr = vec![length as u64, r32(b, 4) as u64, r32(b, 8) as u64, r32(b, 12) as u64];
    let mut o = 16;
    let mut sets = vec![];
    while o < length {
        if length - o < 4 {
            return nc("trailing bytes inside message shorter than a set header");
        }
        let id = r16(b, o);
        let len = r16(b, o + 2) as usize;
        if len < 4 || o + len > length {
            return nc("set length outside message");
        }
        let body = &b[o + 4..o + len];
        let rs = match id {
            2 if q.on => {
                let pure = {
                    let mut c2 = cache.clone();
                    ref_ipfix_sets_one_template_set(body, &mut c2)?
                };
                let (tid, cnt, fields, pad) = quirk_ipfix_template_set(body).ok_or(RefStop::NonConformant("template set shorter than a record header".into()))?;
                let model = CBody::Tpl(vec![CTpl::Plain(tid, cnt, fields.iter().map(ctf_ipfix).collect())], pad);
                if model != pure {
                    q.fire("ipfix/template-set/records>1");
                }
                if !fields.iter().any(|f| f.len > 0) {
                    return nc("template without a non-zero-length field");
                }
                cache.ipfix.insert(tid, RefTpl::Plain(fields));
                RefSet::Decoded(CSet { id, len: len as u16, body: model })
            }
            2 => {
                let mut r = body;
                let mut ts = vec![];
                let mut defs = vec![];
                let mut well_formed = true;
                while r.len() >= 4 {
                    let tid = r16(r, 0);
                    let cnt = r16(r, 2) as usize;
                    let (fields, used) = match ipfix_fieldspecs(&r[4..], cnt) {
                        Some(x) => x,
                        None => break,
                    };
                    // a record without any field of non-zero length describes no data: not a well-formed template
                    well_formed &= fields.iter().any(|f| f.len > 0);
                    ts.push(CTpl::Plain(tid, cnt as u16, fields.iter().map(ctf_ipfix).collect()));
                    defs.push((tid, RefTpl::Plain(fields)));
                    r = &r[4 + used..];
                }
                if well_formed && !ts.is_empty() {
                    for (tid, d) in defs {
                        cache.ipfix.insert(tid, d);
                    }
                    RefSet::Decoded(CSet { id, len: len as u16, body: CBody::Tpl(ts, r.to_vec()) })
                } else {
                    RefSet::UnknownTemplate(id)
                }
            }
            3 => {
                let mut r = body;
                let mut ts = vec![];
                let mut defs = vec![];
                let mut well_formed = true;
                while r.len() >= 6 {
                    let tid = r16(r, 0);
                    let cnt = r16(r, 2) as usize;
                    let sc = r16(r, 4);
                    let (fields, used) = match ipfix_fieldspecs(&r[6..], cnt) {
                        Some(x) => x,
                        None => break,
                    };
                    well_formed &= fields.iter().any(|f| f.len > 0);
                    ts.push(CTpl::IpfixOpt(tid, cnt as u16, sc, fields.iter().map(ctf_ipfix).collect()));
                    defs.push((tid, RefTpl::IpfixOpt(sc, fields)));
                    r = &r[6 + used..];
                    if q.on {
                        // recorded defect: only the first options template record of a set is decoded; the
                        // rest of the set is kept as padding
                        if r.len() >= 6 {
                            q.fire("ipfix/options-template-set/records>1");
                        }
                        break;
                    }
                }
                if well_formed && !ts.is_empty() {
                    for (tid, d) in defs {
                        cache.ipfix.insert(tid, d);
                    }
                    RefSet::Decoded(CSet { id, len: len as u16, body: CBody::OptTpl(ts, r.to_vec()) })
                } else {
                    RefSet::UnknownTemplate(id)
                }
            }
            _ => match cache.ipfix.get(&id) {
                None => RefSet::UnknownTemplate(id),
                Some(RefTpl::Plain(f)) => match ipfix_records(f, body, q)? {
                    Some((flat, _n, pad)) => RefSet::Decoded(CSet { id, len: len as u16, body: CBody::Data(flat, None, pad) }),
                    None => RefSet::UnknownTemplate(id),
                },
                Some(RefTpl::IpfixOpt(_, f)) => match ipfix_records(f, body, q)? {
                    Some((flat, _n, pad)) => RefSet::Decoded(CSet { id, len: len as u16, body: CBody::OptData(flat, None, pad) }),
                    None => RefSet::UnknownTemplate(id),
                },
                Some(RefTpl::V9Opt(..)) => return nc("internal: v9 template in ipfix cache"),
            },
        };
        let undecodable = matches!(rs, RefSet::UnknownTemplate(_));
        sets.push(rs);
        o += len;
        if q.on && undecodable {
            // recorded defect: nothing after an undecodable set is reported
            if o < length {
                q.fire("ipfix/sets-after-undecodable-set");
            }
            break;
        }
    }
    Ok((hdr, sets, length))
}

/// pure decoding of one template-set body (helper for the defect model's comparison)
fn ref_ipfix_sets_one_template_set(body: &[u8], cache: &mut RefCache) -> Result<CBody, RefStop> {
    let mut r = body;
    let mut ts = vec![];
    while r.len() >= 4 {
        let tid = r16(r, 0);
        let cnt = r16(r, 2) as usize;
        let (fields, used) = match ipfix_fieldspecs(&r[4..], cnt) {
            Some(x) => x,
            None => break,
        };
        ts.push(CTpl::Plain(tid, cnt as u16, fields.iter().map(ctf_ipfix).collect()));
        cache.ipfix.insert(tid, RefTpl::Plain(fields));
        r = &r[4 + used..];
    }
    Ok(CBody::Tpl(ts, r.to_vec()))
}

pub fn ref_ipfix(b: &[u8], cache: &mut RefCache, q: &mut Q) -> Result<(CVar, usize), RefStop> {
    let (hdr, sets, used) = ref_ipfix_sets(b, cache, q)?;
    let sets = sets
        .into_iter()
        .filter_map(|s| match s {
            RefSet::Decoded(c) => Some(c),
            RefSet::UnknownTemplate(_) => None,
        })
        .collect();
    Ok((CVar { version: 10, hdr, sets }, used))
}

// ------------------------------------------------------------------------------------------------ whole buffers

/// Expected result of one `parse_bytes` call on a buffer made of conformant packets, with all of
/// 5/7/9/10 allowed: the list of packets; an error element (kind, remaining) if the reference stops early.
pub fn ref_buffer(b: &[u8], cache: &mut RefCache) -> Result<Vec<CPkt>, RefStop> {
    ref_buffer_allowed(b, cache, &|v| matches!(v, 5 | 7 | 9 | 10), &mut Q::pure())
}

/// Same under an arbitrary allowed-version predicate: a version outside it ends the result silently.
pub fn ref_buffer_allowed(b: &[u8], cache: &mut RefCache, allowed: &dyn Fn(u16) -> bool, q: &mut Q) -> Result<Vec<CPkt>, RefStop> {
    let mut o = 0;
    let mut out = vec![];
    while o < b.len() {
        let rest = &b[o..];
        if rest.len() < 2 {
            out.push(CPkt::Error("Incomplete".into(), rest.to_vec()));
            break;
        }
        let v = r16(rest, 0);
        if !allowed(v) {
            break;
        }
        let r = match v {
            5 | 7 => ref_fixed(rest).map(|(p, n)| (CPkt::Fixed(p), n)),
            9 => {
                // a failing V9 packet must not leave half its templates in the reference cache? — the
                // reference commits as it walks; only conformant streams reach here
                ref_v9(rest, cache, q).map(|(p, n)| (CPkt::Var(p), n))
            }
            10 => ref_ipfix(rest, cache, q).map(|(p, n)| (CPkt::Var(p), n)),
            _ => {
                out.push(CPkt::Error("UnknownVersion".into(), rest.to_vec()));
                break;
            }
        };
        match r {
            Ok((p, n)) => {
                out.push(p);
                o += n;
            }
            Err(RefStop::Truncated) | Err(RefStop::UnknownTemplateV9(_)) => {
                out.push(CPkt::Error(format!("Partial(v{})", v), rest.to_vec()));
                break;
            }
            Err(e) => return Err(e),
        }
    }
    Ok(out)
}
