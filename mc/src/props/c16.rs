//! C16 — every parse result serializes to JSON, deterministically and faithfully (E-ENUM).
use crate::engine::*;
use crate::families::*;
use crate::json::{self, J};
use crate::util::*;
use netflow_parser::variable_versions::data_number::{DataNumber, FieldValue};
use netflow_parser::variable_versions::{ipfix, v9};
use netflow_parser::{NetflowPacket, NetflowParseError, NetflowParser};
use serde_json::json;
use std::sync::Arc;

fn n<T: std::fmt::Display>(x: T) -> J {
    J::Num(x.to_string())
}
fn s(x: &str) -> J {
    J::Str(x.to_string())
}
fn bytes(b: &[u8]) -> J {
    J::Arr(b.iter().map(|x| n(*x)).collect())
}
fn obj(v: Vec<(&str, J)>) -> J {
    J::Obj(v.into_iter().map(|(k, v)| (k.to_string(), v)).collect())
}
fn tag(name: &str, v: J) -> J {
    J::Obj(vec![(name.to_string(), v)])
}
/// marker for floats: compared by value (bit pattern after parsing the token), not by token
fn float(f: f64) -> J {
    if f.is_finite() {
        J::Num(format!("f64:{:016x}", f.to_bits()))
    } else {
        J::Null
    }
}

fn field_value(v: &FieldValue) -> J {
    match v {
        FieldValue::String(x) => tag("String", s(x)),
        FieldValue::DataNumber(d) => tag(
            "DataNumber",
            match d {
                DataNumber::U8(x) => n(*x),
                DataNumber::U16(x) => n(*x),
                DataNumber::U24(x) => n(*x),
                DataNumber::I24(x) => n(*x),
                DataNumber::U32(x) => n(*x),
                DataNumber::U64(x) => n(*x),
                DataNumber::U128(x) => n(*x),
                DataNumber::I32(x) => n(*x),
            },
        ),
        FieldValue::Float64(f) => tag("Float64", float(*f)),
        FieldValue::Duration(d) => tag("Duration", obj(vec![("secs", n(d.as_secs())), ("nanos", n(d.subsec_nanos()))])),
        FieldValue::Ip4Addr(a) => tag("Ip4Addr", s(&a.to_string())),
        FieldValue::Ip6Addr(a) => tag("Ip6Addr", s(&a.to_string())),
        FieldValue::MacAddr(m) => tag("MacAddr", s(m)),
        FieldValue::Vec(b) => tag("Vec", bytes(b)),
        FieldValue::ProtocolType(p) => tag("ProtocolType", s(&format!("{:?}", p))),
        FieldValue::Unknown(b) => tag("Unknown", bytes(b)),
    }
}

/// the JSON tree the decoded structure stands for, built by hand (field names of the public structures, externally
/// tagged enums, integer map keys as strings in ascending field index = template order)
pub fn expected(p: &NetflowPacket) -> J {
    match p {
        NetflowPacket::V5(x) => {
            let h = &x.header;
            tag(
                "V5",
                obj(vec![
                    ("header", obj(vec![("version", n(h.version)), ("count", n(h.count)), ("sys_up_time", n(h.sys_up_time)), ("unix_secs", n(h.unix_secs)), ("unix_nsecs", n(h.unix_nsecs)), ("flow_sequence", n(h.flow_sequence)), ("engine_type", n(h.engine_type)), ("engine_id", n(h.engine_id)), ("sampling_interval", n(h.sampling_interval))])),
                    (
                        "flowsets",
                        J::Arr(
                            x.flowsets
                                .iter()
                                .map(|r| {
                                    obj(vec![
                                        ("src_addr", s(&r.src_addr.to_string())),
                                        ("dst_addr", s(&r.dst_addr.to_string())),
                                        ("next_hop", s(&r.next_hop.to_string())),
                                        ("input", n(r.input)),
                                        ("output", n(r.output)),
                                        ("d_pkts", n(r.d_pkts)),
                                        ("d_octets", n(r.d_octets)),
                                        ("first", n(r.first)),
                                        ("last", n(r.last)),
                                        ("src_port", n(r.src_port)),
                                        ("dst_port", n(r.dst_port)),
                                        ("pad1", n(r.pad1)),
                                        ("tcp_flags", n(r.tcp_flags)),
                                        ("protocol_number", n(r.protocol_number)),
                                        ("protocol_type", s(&format!("{:?}", r.protocol_type))),
                                        ("tos", n(r.tos)),
                                        ("src_as", n(r.src_as)),
                                        ("dst_as", n(r.dst_as)),
                                        ("src_mask", n(r.src_mask)),
                                        ("dst_mask", n(r.dst_mask)),
                                        ("pad2", n(r.pad2)),
                                    ])
                                })
                                .collect(),
                        ),
                    ),
                ]),
            )
        }
        NetflowPacket::V7(x) => {
            let h = &x.header;
            tag(
                "V7",
                obj(vec![
                    ("header", obj(vec![("version", n(h.version)), ("count", n(h.count)), ("sys_up_time", n(h.sys_up_time)), ("unix_secs", n(h.unix_secs)), ("unix_nsecs", n(h.unix_nsecs)), ("flow_sequence", n(h.flow_sequence)), ("reserved", n(h.reserved))])),
                    (
                        "flowsets",
                        J::Arr(
                            x.flowsets
                                .iter()
                                .map(|r| {
                                    obj(vec![
                                        ("src_addr", s(&r.src_addr.to_string())),
                                        ("dst_addr", s(&r.dst_addr.to_string())),
                                        ("next_hop", s(&r.next_hop.to_string())),
                                        ("input", n(r.input)),
                                        ("output", n(r.output)),
                                        ("d_pkts", n(r.d_pkts)),
                                        ("d_octets", n(r.d_octets)),
                                        ("first", n(r.first)),
                                        ("last", n(r.last)),
                                        ("src_port", n(r.src_port)),
                                        ("dst_port", n(r.dst_port)),
                                        ("flags_fields_valid", n(r.flags_fields_valid)),
                                        ("tcp_flags", n(r.tcp_flags)),
                                        ("protocol_number", n(r.protocol_number)),
                                        ("protocol_type", s(&format!("{:?}", r.protocol_type))),
                                        ("tos", n(r.tos)),
                                        ("src_as", n(r.src_as)),
                                        ("dst_as", n(r.dst_as)),
                                        ("src_mask", n(r.src_mask)),
                                        ("dst_mask", n(r.dst_mask)),
                                        ("flags_fields_invalid", n(r.flags_fields_invalid)),
                                        ("router_src", s(&r.router_src.to_string())),
                                    ])
                                })
                                .collect(),
                        ),
                    ),
                ]),
            )
        }
        NetflowPacket::V9(x) => {
            let h = &x.header;
            let tf = |f: &v9::TemplateField| obj(vec![("field_type_number", n(f.field_type_number)), ("field_type", s(&format!("{:?}", f.field_type))), ("field_length", n(f.field_length))]);
            tag(
                "V9",
                obj(vec![
                    ("header", obj(vec![("version", n(h.version)), ("count", n(h.count)), ("sys_up_time", n(h.sys_up_time)), ("unix_secs", n(h.unix_secs)), ("sequence_number", n(h.sequence_number)), ("source_id", n(h.source_id))])),
                    (
                        "flowsets",
                        J::Arr(
                            x.flowsets
                                .iter()
                                .map(|fsx| {
                                    let body = match &fsx.body {
                                        v9::FlowSetBody::Template(t) => tag(
                                            "Template",
                                            obj(vec![("templates", J::Arr(t.templates.iter().map(|t| obj(vec![("template_id", n(t.template_id)), ("field_count", n(t.field_count)), ("fields", J::Arr(t.fields.iter().map(tf).collect()))])).collect()))]),
                                        ),
                                        v9::FlowSetBody::OptionsTemplate(t) => tag(
                                            "OptionsTemplate",
                                            obj(vec![(
                                                "templates",
                                                J::Arr(
                                                    t.templates
                                                        .iter()
                                                        .map(|t| {
                                                            obj(vec![
                                                                ("template_id", n(t.template_id)),
                                                                ("options_scope_length", n(t.options_scope_length)),
                                                                ("options_length", n(t.options_length)),
                                                                ("scope_fields", J::Arr(t.scope_fields.iter().map(|f| obj(vec![("field_type_number", n(f.field_type_number)), ("field_type", s(&format!("{:?}", f.field_type))), ("field_length", n(f.field_length))])).collect())),
                                                                ("option_fields", J::Arr(t.option_fields.iter().map(tf).collect())),
                                                            ])
                                                        })
                                                        .collect(),
                                                ),
                                            )]),
                                        ),
                                        v9::FlowSetBody::Data(d) => tag(
                                            "Data",
                                            obj(vec![("fields", J::Arr(d.fields.iter().map(|rec| J::Obj(rec.iter().map(|(k, (ft, v))| (k.to_string(), J::Arr(vec![s(&format!("{:?}", ft)), field_value(v)]))).collect())).collect()))]),
                                        ),
                                        v9::FlowSetBody::OptionsData(d) => tag(
                                            "OptionsData",
                                            obj(vec![
                                                (
                                                    "scope_fields",
                                                    J::Arr(
                                                        d.scope_fields
                                                            .iter()
                                                            .map(|sf| match sf {
                                                                v9::ScopeDataField::System(b) => tag("System", bytes(b)),
                                                                v9::ScopeDataField::Interface(b) => tag("Interface", bytes(b)),
                                                                v9::ScopeDataField::LineCard(b) => tag("LineCard", bytes(b)),
                                                                v9::ScopeDataField::NetFlowCache(b) => tag("NetFlowCache", bytes(b)),
                                                                v9::ScopeDataField::Template(b) => tag("Template", bytes(b)),
                                                            })
                                                            .collect(),
                                                    ),
                                                ),
                                                ("options_fields", J::Arr(d.options_fields.iter().map(|of| obj(vec![("field_type", s(&format!("{:?}", of.field_type))), ("field_value", bytes(&of.field_value))])).collect())),
                                            ]),
                                        ),
                                    };
                                    obj(vec![("header", obj(vec![("flowset_id", n(fsx.header.flowset_id)), ("length", n(fsx.header.length))])), ("body", body)])
                                })
                                .collect(),
                        ),
                    ),
                ]),
            )
        }
        NetflowPacket::IPFix(x) => {
            let h = &x.header;
            let tf = |f: &ipfix::TemplateField| {
                let mut v = vec![("field_type_number", n(f.field_type_number)), ("field_type", s(&format!("{:?}", f.field_type))), ("field_length", n(f.field_length))];
                if let Some(e) = f.enterprise_number {
                    v.push(("enterprise_number", n(e)));
                }
                obj(v)
            };
            let recs = |r: &Vec<std::collections::BTreeMap<usize, (netflow_parser::variable_versions::ipfix_lookup::IPFixField, FieldValue)>>| J::Arr(r.iter().map(|rec| J::Obj(rec.iter().map(|(k, (ft, v))| (k.to_string(), J::Arr(vec![s(&format!("{:?}", ft)), field_value(v)]))).collect())).collect());
            tag(
                "IPFix",
                obj(vec![
                    ("header", obj(vec![("version", n(h.version)), ("length", n(h.length)), ("export_time", n(h.export_time)), ("sequence_number", n(h.sequence_number)), ("observation_domain_id", n(h.observation_domain_id))])),
                    (
                        "flowsets",
                        J::Arr(
                            x.flowsets
                                .iter()
                                .map(|fsx| {
                                    let body = match &fsx.body {
                                        ipfix::FlowSetBody::Template(t) => tag("Template", obj(vec![("template_id", n(t.template_id)), ("field_count", n(t.field_count)), ("fields", J::Arr(t.fields.iter().map(tf).collect()))])),
                                        ipfix::FlowSetBody::OptionsTemplate(t) => tag("OptionsTemplate", obj(vec![("template_id", n(t.template_id)), ("field_count", n(t.field_count)), ("scope_field_count", n(t.scope_field_count)), ("fields", J::Arr(t.fields.iter().map(tf).collect()))])),
                                        ipfix::FlowSetBody::Data(d) => tag("Data", obj(vec![("fields", recs(&d.fields))])),
                                        ipfix::FlowSetBody::OptionsData(d) => tag("OptionsData", obj(vec![("fields", recs(&d.fields))])),
                                    };
                                    obj(vec![("header", obj(vec![("header_id", n(fsx.header.header_id)), ("length", n(fsx.header.length))])), ("body", body)])
                                })
                                .collect(),
                        ),
                    ),
                ]),
            )
        }
        NetflowPacket::Error(e) => {
            let err = match &e.error {
                NetflowParseError::Incomplete(m) => tag("Incomplete", s(m)),
                NetflowParseError::Partial(p) => tag("Partial", obj(vec![("version", n(p.version)), ("remaining", bytes(&p.remaining)), ("error", s(&p.error))])),
                NetflowParseError::UnallowedVersion(v) => tag("UnallowedVersion", n(*v)),
                NetflowParseError::UnknownVersion(b) => tag("UnknownVersion", bytes(b)),
            };
            tag("Error", obj(vec![("error", err), ("remaining", bytes(&e.remaining))]))
        }
    }
}

/// structural comparison; float markers are compared by value; returns the path of the first difference
fn same(e: &J, g: &J, path: &mut String) -> Option<String> {
    match (e, g) {
        (J::Num(a), J::Num(b)) => {
            if let Some(bits) = a.strip_prefix("f64:") {
                let want = f64::from_bits(u64::from_str_radix(bits, 16).unwrap());
                match b.parse::<f64>() {
                    Ok(x) if x.to_bits() == want.to_bits() => None,
                    _ => Some(format!("{}: float {:?} serialised as {}", path, want, b)),
                }
            } else if a == b {
                None
            } else {
                Some(format!("{}: number {} serialised as {}", path, a, b))
            }
        }
        (J::Str(a), J::Str(b)) => (a != b).then(|| format!("{}: string {:?} serialised as {:?}", path, a, b)),
        (J::Null, J::Null) => None,
        (J::Bool(a), J::Bool(b)) => (a != b).then(|| format!("{}: bool", path)),
        (J::Arr(a), J::Arr(b)) => {
            if a.len() != b.len() {
                return Some(format!("{}: array of {} serialised with {} elements", path, a.len(), b.len()));
            }
            for (i, (x, y)) in a.iter().zip(b.iter()).enumerate() {
                let l = path.len();
                path.push_str(&format!("[{}]", i));
                if let Some(d) = same(x, y, path) {
                    return Some(d);
                }
                path.truncate(l);
            }
            None
        }
        (J::Obj(a), J::Obj(b)) => {
            let ka: Vec<&String> = a.iter().map(|x| &x.0).collect();
            let kb: Vec<&String> = b.iter().map(|x| &x.0).collect();
            if ka != kb {
                return Some(format!("{}: keys {:?} serialised as {:?}", path, ka, kb));
            }
            for ((k, x), (_, y)) in a.iter().zip(b.iter()) {
                let l = path.len();
                path.push('.');
                path.push_str(k);
                if let Some(d) = same(x, y, path) {
                    return Some(d);
                }
                path.truncate(l);
            }
            None
        }
        _ => Some(format!("{}: different JSON kinds (expected {:?})", path, std::mem::discriminant(e))),
    }
}

fn sig_of(diff: &str) -> String {
    // path with indices and map keys removed
    let p = diff.split(':').next().unwrap_or("");
    let mut out = String::new();
    let mut skip = false;
    for c in p.chars() {
        match c {
            '[' => skip = true,
            ']' => skip = false,
            c if !skip && !c.is_ascii_digit() => out.push(c),
            _ => {}
        }
    }
    let kind = if diff.contains("float") { "float" } else if diff.contains("number") { "number" } else if diff.contains("string") { "string" } else if diff.contains("keys") { "keys" } else if diff.contains("array") { "array-length" } else { "kind" };
    format!("unfaithful/{}/{}", kind, out.trim_matches('.'))
}

pub fn judge_calls(calls: &[Vec<u8>]) -> Eval {
    let mut p1 = NetflowParser::default();
    let mut p2 = NetflowParser::default();
    // two more instances: per-instance randomness (hash seeds) that only sometimes shows between two parsers shows
    // between four with much higher probability
    let mut p3 = NetflowParser::default();
    let mut p4 = NetflowParser::default();
    let mut issues = vec![];
    let mut keyacc = vec![];
    for c in calls {
        let r1 = p1.parse_bytes(c);
        let r2 = p2.parse_bytes(c);
        for r in [p3.parse_bytes(c), p4.parse_bytes(c)] {
            let mut t = Vec::new();
            let mut t0 = Vec::new();
            if serde_json::to_writer(&mut t, &r).is_ok() && serde_json::to_writer(&mut t0, &r1).is_ok() && t != t0 {
                issues.push(issue("not-deterministic/two-parsers-same-history", "parsers fed the same history serialise differently"));
            }
        }
        let mut t1 = Vec::new();
        if let Err(e) = serde_json::to_writer(&mut t1, &r1) {
            issues.push(issue("serialization-fails", format!("{}", e)));
            continue;
        }
        let mut t1b = Vec::new();
        let _ = serde_json::to_writer(&mut t1b, &r1);
        if t1 != t1b {
            issues.push(issue("not-deterministic/same-value-twice", "two serialisations of the same result differ"));
        }
        let mut t2 = Vec::new();
        let _ = serde_json::to_writer(&mut t2, &r2);
        if t1 != t2 {
            issues.push(issue("not-deterministic/two-parsers-same-history", "two parsers fed the same history serialise differently"));
        }
        let text = match String::from_utf8(t1) {
            Ok(t) => t,
            Err(_) => {
                issues.push(issue("not-utf8", "serialised JSON is not UTF-8"));
                continue;
            }
        };
        keyacc.push(h64(&text));
        let tree = match json::parse(&text) {
            Ok(t) => t,
            Err(e) => {
                issues.push(issue("malformed-json", e));
                continue;
            }
        };
        let exp = J::Arr(r1.iter().map(expected).collect());
        if let Some(d) = same(&exp, &tree, &mut String::new()) {
            issues.push(issue(sig_of(&d), d));
        }
    }
    issues.sort_by(|a, b| a.sig.cmp(&b.sig));
    issues.dedup_by(|a, b| a.sig == b.sig);
    Eval { key: h64(&keyacc) | 1, transitions: 2 * calls.len() as u64, issues, tags: vec![] }
}

fn many_templates(ipfix: bool, n: usize) -> Vec<Vec<u8>> {
    use crate::wire::*;
    let ids: Vec<u16> = (0..n).map(|k| (256 + k) as u16).collect();
    let fields = vec![fs(1, 4), fs(7, 2)];
    let mut calls = vec![];
    for chunk in ids.chunks(700) {
        calls.push(if ipfix {
            ipfix_message(&IpfixMsg::new(chunk.iter().map(|id| IpfixSet::Tpl(vec![IpfixTpl { id: *id, fields: fields.clone() }], 0)).collect()))
        } else {
            v9_packet(&V9Pkt::new(vec![V9Set::Tpl(chunk.iter().map(|id| V9Tpl { id: *id, fields: fields.clone() }).collect(), 0)]))
        });
    }
    for chunk in ids.chunks(1500) {
        calls.push(if ipfix {
            ipfix_message(&IpfixMsg::new(chunk.iter().map(|id| IpfixSet::Data(*id, crate::alphabet::rec_value(*id as usize, 1, 6))).collect()))
        } else {
            v9_packet(&V9Pkt::new(chunk.iter().map(|id| V9Set::Data(*id, crate::alphabet::rec_value(*id as usize, 1, 6))).collect()))
        });
    }
    calls
}

fn fam_space(f: Arc<dyn Family>) -> Box<dyn Space> {
    let f2 = f.clone();
    space(
        &f.name(),
        f.size(),
        move |i| {
            let c = f.case(i);
            let mut calls = c.prior.clone();
            calls.push(c.input);
            match std::panic::catch_unwind(std::panic::AssertUnwindSafe(|| judge_calls(&calls))) {
                Ok(e) => e,
                Err(_) => Eval { key: 0, transitions: 0, issues: vec![], tags: vec!["panicked (C01's subject)"] },
            }
        },
        move |i| f2.case(i).describe(),
    )
}

pub fn spaces(tier: &str) -> Vec<Box<dyn Space>> {
    let thorough = tier == "thorough";
    let mut v: Vec<Box<dyn Space>> = vec![];
    v.extend(super::c04::streams_with(tier, if tier == "thorough" { 4 } else { 3 }).into_iter().map(|g| g.into_space(judge_calls)));
    v.extend(super::c05::streams_with(tier, if tier == "thorough" { 4 } else { 3 }).into_iter().map(|g| g.into_space(judge_calls)));
    // V5/V7: C03's buffer spaces
    v.extend(super::c03::buffers(tier).into_iter().filter(|g| thorough || !(g.name.contains("all-counts-over") || g.name.contains("every-prefix-of-1") || g.name.contains("materialised"))).map(|g| g.into_space(|b| judge_calls(&[b.to_vec()]))));
    // many cached templates: N distinct ids defined, then data for EVERY id; two parsers must serialise identically
    {
        let sizes: Vec<usize> = if thorough { vec![3, 64, 65, 257, 1024, 1025, 1500, 4097, 9000] } else { vec![3, 65, 257, 1025, 1500, 4097] };
        let s2 = sizes.clone();
        v.push(space(
            "many-templates-then-data-for-every-id (V9 and IPFIX)",
            sizes.len() as u64 * 2,
            move |i| judge_calls(&many_templates(i % 2 == 1, sizes[(i / 2) as usize])),
            move |i| json!({"protocol": if i % 2 == 1 { "ipfix" } else { "v9" }, "distinct_template_ids": s2[(i / 2) as usize], "shape": "template packets (700 ids each), then data packets (one 6-byte record per id)"}),
        ));
    }
    // error elements with arbitrary remaining bytes; accepted deviants
    v.push(fam_space(family_b1(all_seeds(true, if thorough { 100_000 } else { 200 }), if thorough { 3 } else { 2 })));
    v.push(fam_space(family_b_trunc(all_seeds(true, 100_000), 2)));
    v.push(fam_space(family_d()));
    // LARGE failing packets: the error element quotes or carries hundreds to tens of thousands of bytes
    {
        let sizes: Vec<usize> = vec![300, 900, 1400, 2000, 4100, 9000, 20000, 65000];
        let ns = sizes.len() as u64;
        v.push(super::stream::stream_gen("large-failing-packets x 8 sizes x 6 shapes", ns * 6, move |i| {
            use crate::wire::*;
            let n = sizes[(i % ns) as usize];
            let body: Vec<u8> = (0..n).map(|j| fill(j / 251 + 3, j)).collect();
            Some(match i / ns {
                // V9 data for a template nobody defined
                0 => vec![v9_packet(&V9Pkt::new(vec![V9Set::Data(300, body)]))],
                // IPFIX message announcing more than the buffer holds
                1 => {
                    let mut b = ipfix_message(&IpfixMsg::new(vec![IpfixSet::Data(300, body)]));
                    let l = b.len();
                    b.truncate(l - 3);
                    vec![b]
                }
                // V5 header announcing more records than follow
                2 => {
                    let mut b = fixed_distinct(5, 1, 2);
                    b[2..4].copy_from_slice(&2000u16.to_be_bytes());
                    b.extend(body);
                    vec![b]
                }
                // an unknown version in front of n bytes
                3 => {
                    let mut b = vec![0x00, 0x06];
                    b.extend(body);
                    vec![b]
                }
                // a V9 flowset announcing more than the buffer holds, behind a decoded V5 packet
                4 => {
                    let mut b = fixed_distinct(5, 1, 4);
                    let mut p = v9_packet(&V9Pkt::new(vec![V9Set::Data(300, body)]));
                    let l = p.len();
                    p.truncate(l - 1);
                    b.extend(p);
                    vec![b]
                }
                // V7 header announcing more records than follow
                _ => {
                    let mut b = fixed_distinct(7, 1, 2);
                    b[2..4].copy_from_slice(&1200u16.to_be_bytes());
                    b.extend(body);
                    vec![b]
                }
            })
        }).into_space(judge_calls));
    }
    v.push(fam_space(family_e(false)));
    v.push(fam_space(family_e(true)));
    if thorough {
        v.push(fam_space(family_a_v9(16)));
        v.push(fam_space(family_a_ipfix(16)));
    }
    v
}

pub fn run(tier: &str) -> i32 {
    let rep = Report {
        prop: "C16".into(),
        tier: tier.into(),
        level: "model_checking",
        rule: "every result of C04's and C05's conformant stream spaces (all field types x widths x value menus incl. 128-bit extremes, NaN/inf/-0.0, invalid UTF-8, empty values), V5/V7 walking byte, single-byte deviations and truncations of every seed (error elements with arbitrary remaining bytes) and all tiny buffers: streaming serialisation must succeed, parse with the harness' own JSON reader, be byte-identical when repeated and across two parsers fed the same history, and the parsed tree must equal the tree built by hand from the decoded structure (exact number tokens, floats by bit pattern, record keys in ascending field index). Distinct by the hash of the JSON text".into(),
        bounds: json!({"spaces": "C04 + C05 stream spaces, V5/V7 walking byte, families B1, B-truncation, D (thorough: + grammar families A)"}),
        assumptions: vec!["the expected tree follows serde's derive conventions for the public result types (externally tagged enums, field names); those are pinned by the repository's YAML snapshots".into()],
        trusted_base: vec!["json.rs (independent reader)".into(), "c16::expected".into()],
        required_tags: vec![],
        extra: Default::default(),
    };
    run_report(rep, spaces(tier))
}
