pub mod c01;
pub mod c02;
pub mod c03;
pub mod c04;
pub mod c05;
pub mod c08;
pub mod stream;
